"""C03 - no client request takes the manager down or goes unanswered."""
import ast
import json
import os
from sa.model import AnalysisError, Unknown, norm, unwrap, EnumMember
from sa.query import Facts, call_name, find_calls, try_fold, calls_in, kwarg, defs_of
from sa.exc import ExcAnalysis, Witness
from sa.atoms import AtomExtractor, PathEnv, Atom
from sa.callgraph import ClsVal
from sa.cfg import walk_no_nested
from .common import (dongle_classes, protocol_classes, device_touching, command_methods)
from .c04 import value_set

TECHNIQUE = ("exception-escape analysis over the resolved call graph with a curated table of "
             "raising primitives applied to client-tainted operands (origin analysis from the "
             "request), disarmed by validator atoms / dominating guards / enclosing handlers; "
             "path counting of reply writes on the exception-aware CFG of the request handler")
EXPLANATION = (
    "Static analysis of /repo's current source (nothing executed). Decides: every path of "
    "_RequestHandler.handle that obtained a request line writes exactly one reply; every value "
    "that can reach the reply is a dict with an integer errorcode (all command returns are "
    "tuples headed by a foldable int, 1-tuples provably negative); no exception caused by "
    "client-controlled data (tier 1: explicit raises; tier 2: curated raising primitives - "
    "json.loads, to_bytes, bytes.fromhex, rlp.decode, Enum(), dict-key hashing, request "
    "subscripts, methods on RLP items - applied to request-derived operands) can travel to the "
    "two fatal handlers of the server; server shutdown is reachable only from those handlers. "
    "Device answers are assumed well-formed (the statement's own premise); memory/time "
    "exhaustion and socketserver internals are not decided; tier 2 is sound only for the "
    "primitives tabulated."
)

JUST = os.path.join(os.path.dirname(os.path.dirname(os.path.abspath(__file__))), "spec",
                    "c03_justified.json")

K, C, D, LEN, RLP, RLPE, OBJ, H = ("K",), ("C",), ("D",), ("LEN",), ("RLP",), ("RLPE",), ("OBJ",), ("H",)


def is_client(o):
    return o[0] in ("R", "C", "LEN", "RLP", "RLPE", "H")


class Origins:
    """Flow-insensitive, context-insensitive origin analysis for one protocol
    class context: which request path (if any) a value comes from."""

    def __init__(self, run, pc, scope, seeds):
        self.run, self.pc, self.A, self.P = run, pc, run.A, run.P
        self.scope = scope          # {qualname: (fn, self_cls)}
        self.env = {q: {} for q in scope}
        self.ret = {q: set() for q in scope}
        for (q, name), o in seeds.items():
            self.env.setdefault(q, {}).setdefault(name, set()).add(o)
        self.bip32_paths = set()
        self.passed = set()      # (callee qualname, param) explicitly passed at some call site
        self._solve()

    def _solve(self):
        for it in range(30):
            self.changed = False
            for q, (fn, sc) in list(self.scope.items()):
                self._function(fn, sc)
            if not self.changed:
                return
        raise AnalysisError("origin analysis did not converge")

    def _add(self, q, name, origins):
        s = self.env.setdefault(q, {}).setdefault(name, set())
        before = len(s)
        s |= set(origins)
        if len(s) > 12:
            # collapse
            if any(is_client(o) for o in s):
                s.clear()
                s.add(C)
        if len(s) != before:
            self.changed = True

    def _function(self, fn, sc):
        q = fn.qualname
        A = self.A
        if isinstance(fn.node, ast.Lambda):
            r = self.of(fn.node.body, fn, sc)
            if not r <= self.ret[q]:
                self.ret[q] |= r
                self.changed = True
            return
        for n in A.own_nodes(fn):
            if isinstance(n, ast.Assign):
                if all(isinstance(t, ast.Name) for t in n.targets) and not self._feasible_return(fn, sc, n):
                    continue        # on the infeasible side of a never-passed boolean default
                if len(n.targets) == 1 and isinstance(n.targets[0], (ast.Tuple, ast.List)):
                    # a, b = (x, y)  /  a, b = r  with r only ever bound to displays of that arity: element-wise
                    disp = [n.value] if isinstance(n.value, (ast.Tuple, ast.List)) else (
                        [d.value for d in defs_of(A, fn, n.value.id)] if isinstance(n.value, ast.Name) else [])
                    k = len(n.targets[0].elts)
                    if disp and all(isinstance(d, (ast.Tuple, ast.List)) and len(d.elts) == k and
                                    not any(isinstance(x, ast.Starred) for x in d.elts) for d in disp):
                        for i, t in enumerate(n.targets[0].elts):
                            o = set()
                            for d in disp:
                                o |= self.of(d.elts[i], fn, sc)
                            self._bind(t, o, None, fn, sc)
                        continue
                o = self.of(n.value, fn, sc)
                for t in n.targets:
                    self._bind(t, o, n.value, fn, sc)
            elif isinstance(n, ast.AugAssign) and isinstance(n.target, ast.Name):
                o = self.of(n.value, fn, sc) | self.env[q].get(n.target.id, set())
                self._add(q, n.target.id, self._mix(o))
            elif isinstance(n, (ast.For, ast.comprehension)):
                self._bind_iter(n.target, n.iter, fn, sc)
            elif isinstance(n, ast.Return) and n.value is not None:
                if not self._feasible_return(fn, sc, n):
                    continue
                r = self.of(n.value, fn, sc)
                if not r <= self.ret[q]:
                    self.ret[q] |= r
                    self.changed = True
            elif isinstance(n, ast.withitem) and n.optional_vars is not None:
                self._bind(n.optional_vars, {K}, n.context_expr, fn, sc)
            elif isinstance(n, ast.ExceptHandler) and n.name:
                self._add(q, n.name, {K})
            elif isinstance(n, ast.Call):
                self._bind_call(n, fn, sc)

    def _feasible_return(self, fn, sc, ret):
        """A return guarded by a boolean parameter that keeps its constant
        default at every call site is infeasible on the other polarity."""
        a = fn.node.args
        ps = [x.arg for x in a.posonlyargs + a.args]
        defaults = dict(zip(ps[len(ps) - len(a.defaults):], a.defaults))
        if not defaults:
            return True
        g = self.A.cfg(fn, sc)
        for rn in g.nodes_of(ret):
            for pol, e, cond in g.edge_facts(rn):
                truth = pol == "T"
                while isinstance(e, ast.UnaryOp) and isinstance(e.op, ast.Not):
                    e = e.operand
                    truth = not truth
                if isinstance(e, ast.Name) and e.id in defaults and isinstance(defaults[e.id], ast.Constant) \
                        and isinstance(defaults[e.id].value, bool) and (fn.qualname, e.id) not in self.passed:
                    if defaults[e.id].value != truth:
                        return False
        return True

    def _bind(self, t, o, value, fn, sc):
        q = fn.qualname
        if isinstance(t, ast.Name):
            self._add(q, t.id, o)
        elif isinstance(t, (ast.Tuple, ast.List)):
            for e in t.elts:
                self._bind(e, self._elem(o), None, fn, sc)
        elif isinstance(t, ast.Subscript):
            # request["keyId"] = BIP32Path(...): the path now holds a validated object
            base = self.of(t.value, fn, sc)
            if isinstance(value, ast.Call):
                cs = self.A.resolve_call(value, fn, sc)
                if any(c.how == "ctor" and c.self_cls is not None and c.self_cls.name == "BIP32Path" for c in cs):
                    for b in base:
                        if b[0] == "R" and isinstance(t.slice, ast.Constant):
                            self.bip32_paths.add(b[1] + (t.slice.value,))

    def _elem(self, o):
        out = set()
        for x in o:
            if x[0] == "R":
                out.add(("R", x[1] + ("*",)))
            elif x == RLP or x == RLPE:
                out.add(RLPE)
            elif x == LEN:
                out.add(C)
            else:
                out.add(x)
        return out

    def _bind_iter(self, target, it, fn, sc):
        if isinstance(it, ast.Call) and call_name(it) == "enumerate" and it.args \
                and isinstance(target, ast.Tuple) and len(target.elts) == 2:
            self._bind(target.elts[0], {K}, None, fn, sc)
            self._bind(target.elts[1], self._elem(self.of(it.args[0], fn, sc)), None, fn, sc)
            return
        if isinstance(it, ast.Call) and call_name(it) == "range":
            self._bind(target, {K}, None, fn, sc)
            return
        if isinstance(it, ast.Call) and call_name(it) in ("items",) and isinstance(target, ast.Tuple):
            o = self.of(it.func.value, fn, sc)
            for e in target.elts:
                self._bind(e, self._elem(o), None, fn, sc)
            return
        self._bind(target, self._elem(self.of(it, fn, sc)), None, fn, sc)

    def _bind_call(self, call, fn, sc):
        cs = self.A.resolve_call(call, fn, sc)
        targets = [c for c in cs if c.fn is not None]
        if not targets:
            targets = [c for c in self.A.fn_args_called(call, fn, sc)]
            # map(f, xs) / sorted(xs, key=f) / filter(f, xs): f's parameter gets elements
            for c in targets:
                if c.fn.qualname in self.scope or True:
                    self._ensure_scope(c)
                    ps = self._params(c.fn)
                    elems = set()
                    for a in call.args:
                        if not isinstance(a, (ast.Lambda,)):
                            elems |= self._elem(self.of(a, fn, sc))
                    if ps:
                        self._add(c.fn.qualname, ps[0], elems)
            return
        for c in targets:
            self._ensure_scope(c)
            ps = self._params(c.fn)
            off = 0
            if c.fn.cls is not None and c.fn.parent is None and not c.fn.is_static:
                off = 1
            for i, a in enumerate(call.args):
                if i + off < len(ps):
                    self._add(c.fn.qualname, ps[i + off], self.of(a, fn, sc))
                    if (c.fn.qualname, ps[i + off]) not in self.passed:
                        self.passed.add((c.fn.qualname, ps[i + off]))
                        self.changed = True
            for kw in call.keywords:
                if kw.arg in ps:
                    self._add(c.fn.qualname, kw.arg, self.of(kw.value, fn, sc))
                    if (c.fn.qualname, kw.arg) not in self.passed:
                        self.passed.add((c.fn.qualname, kw.arg))
                        self.changed = True

    def _ensure_scope(self, c):
        if c.fn.qualname not in self.scope:
            self.scope[c.fn.qualname] = (c.fn, c.self_cls)
            self.env.setdefault(c.fn.qualname, {})
            self.ret.setdefault(c.fn.qualname, set())
            self.changed = True

    @staticmethod
    def _params(fn):
        a = fn.node.args
        return [x.arg for x in a.posonlyargs + a.args + a.kwonlyargs]

    def _mix(self, o):
        """Origin of a value computed from values of origins o."""
        if any(is_client(x) for x in o):
            return {C}
        if D in o:
            return {D}
        return {K}

    def of(self, e, fn, sc):
        q = fn.qualname
        if e is None or isinstance(e, (ast.Constant, ast.Lambda)):
            return {K}
        if isinstance(e, ast.Name):
            f = fn
            while f is not None:
                if e.id in self.env.get(f.qualname, {}):
                    return set(self.env[f.qualname][e.id])
                f = f.parent
            return {K}
        if isinstance(e, ast.Attribute):
            base = self.of(e.value, fn, sc)
            if isinstance(e.value, ast.Name) and e.value.id in ("self", "cls"):
                return {K}
            if any(b[0] == "R" and b[1] in self.bip32_paths for b in base):
                return {K}
            return self._mix(base) if any(is_client(b) or b == D for b in base) else {K}
        if isinstance(e, ast.Subscript):
            base = self.of(e.value, fn, sc)
            out = set()
            for b in base:
                if b[0] == "R":
                    if isinstance(e.slice, ast.Constant) and isinstance(e.slice.value, str):
                        p = b[1] + (e.slice.value,)
                        out.add(OBJ if p in self.bip32_paths else ("R", p))
                    elif isinstance(e.slice, ast.Slice):
                        out.add(b)
                    else:
                        ok, k = try_fold(self.P, e.slice, fn, sc)
                        if ok and isinstance(k, str):
                            p = b[1] + (k,)
                            out.add(OBJ if p in self.bip32_paths else ("R", p))
                        else:
                            out.add(("R", b[1] + ("*",)))
                elif b in (RLP, RLPE):
                    out.add(RLP if isinstance(e.slice, ast.Slice) and b == RLP else RLPE)
                else:
                    out.add(b)
            return out or {K}
        if isinstance(e, ast.Call):
            return self._call(e, fn, sc)
        if isinstance(e, (ast.List, ast.Tuple, ast.Set)):
            o = set()
            for x in e.elts:
                o |= self.of(x, fn, sc)
            return self._mix(o) if len(e.elts) != 1 else self._mix(o)
        if isinstance(e, ast.Dict):
            o = set()
            for x in e.values:
                o |= self.of(x, fn, sc)
            return self._mix(o)
        if isinstance(e, ast.IfExp):
            return self.of(e.body, fn, sc) | self.of(e.orelse, fn, sc)
        if isinstance(e, (ast.GeneratorExp, ast.ListComp, ast.SetComp)):
            o = set()
            for g in e.generators:
                o |= self.of(g.iter, fn, sc)
            return self._mix(o)
        o = set()
        for c in ast.iter_child_nodes(e):
            if isinstance(c, ast.expr):
                o |= self.of(c, fn, sc)
        if isinstance(e, ast.BinOp) and isinstance(e.op, (ast.Add, ast.Mult)) and o and o <= {LEN, K}:
            return {LEN} if LEN in o else {K}
        return self._mix(o)

    def _call(self, e, fn, sc):
        nm = call_name(e)
        f = e.func
        args = list(e.args) + [k.value for k in e.keywords]
        if nm == "exchange" and isinstance(f, ast.Attribute):
            return {D}
        if nm == "hex" and isinstance(f, ast.Attribute) and not e.args:
            o = self.of(f.value, fn, sc)
            return {H} if any(is_client(x) for x in o) else self._mix(o)
        if nm == "get" and isinstance(f, ast.Attribute) and e.args:
            base = self.of(f.value, fn, sc)
            ok, k = try_fold(self.P, e.args[0], fn, sc)
            if ok and isinstance(k, str) and any(b[0] == "R" for b in base):
                return {("R", b[1] + (k,)) if b[0] == "R" else b for b in base}
        if nm == "len" and isinstance(f, ast.Name) and e.args:
            o = self.of(e.args[0], fn, sc)
            return {LEN} if any(is_client(x) for x in o) else ({D} if D in o else {K})
        if nm == "decode" and isinstance(f, ast.Attribute) and norm(f.value) == "rlp":
            o = self.of(e.args[0], fn, sc) if e.args else {K}
            return {RLP} if any(is_client(x) for x in o) else self._mix(o)
        if nm in ("sorted", "list", "reversed", "tuple") and isinstance(f, ast.Name) and e.args:
            o = self.of(e.args[0], fn, sc)
            return {x for x in o} or {K}
        if nm == "map" and isinstance(f, ast.Name) and len(e.args) == 2:
            # map(f, xs): elements are f's results
            cs = self.A.fn_args_called(e, fn, sc)
            o = set()
            xs = self.of(e.args[1], fn, sc)
            for c in cs:
                if c.fn is not None:
                    self._ensure_scope(c)
                    r = self.ret.get(c.fn.qualname, set())
                    for x in r:
                        # a list whose elements have origin x: wrap R paths
                        if x[0] == "R" and x[1] and x[1][-1] == "*":
                            o.add(("R", x[1][:-1]))
                        else:
                            o.add(x if not is_client(x) else C)
            return o or self._mix(xs)
        cs = self.A.resolve_call(e, fn, sc)
        if any(c.how == "ctor-noinit" and c.self_cls is not None and self.P.is_enum(c.self_cls) for c in cs):
            return {K}
        targets = [c for c in cs if c.fn is not None]
        if targets:
            out = set()
            for c in targets:
                self._ensure_scope(c)
                if c.how == "ctor":
                    o = set()
                    for a in args:
                        o |= self.of(a, fn, sc)
                    out |= {OBJ} if c.self_cls is not None and c.self_cls.name in ("BIP32Path",) else self._mix(o)
                else:
                    # (what comes back through a callable taken from a table is invisible to this analysis: undecided, not "unknown origin")
                    self.P._refuse_computed_callees(c.fn)
                    out |= self.ret.get(c.fn.qualname, set())
            return out or {K}
        # method call on a value: result derives from receiver and arguments
        o = set()
        if isinstance(f, ast.Attribute):
            o |= self.of(f.value, fn, sc)
        for a in args:
            o |= self.of(a, fn, sc)
        return self._mix(o)


# ---------------------------------------------------------------------------
class Ctx:
    """Per protocol class: origins, validator facts per command, which commands
    reach which function."""

    def __init__(self, run, pc):
        self.run, self.pc = run, pc
        P, A = run.P, run.A
        self.X = AtomExtractor(A)
        maps = command_methods(run, pc)
        self.maps = maps
        gate = P.method(pc, "handle_request")
        ens = P.method(P.cls("ledger.protocol.HSM2ProtocolLedger"), "ensure_connection")
        # scope: everything reachable from handle_request in this class context,
        # the re-bring-up subtree set apart
        scope = {}
        todo = [(gate, pc)]
        while todo:
            fn, sc = todo.pop()
            if fn.qualname in scope or fn is ens:
                continue
            scope[fn.qualname] = (fn, sc)
            for call, cs in A.callees(fn, sc):
                for c in cs:
                    if c.fn is not None:
                        todo.append((c.fn, c.self_cls if c.self_cls is not None else None))
        self.ens = ens
        seeds = {}
        for q, (fn, sc) in scope.items():
            if fn.cls is not None and fn.cls in pc.mro() and "request" in Origins._params(fn):
                seeds[(q, "request")] = ("R", ())
        self.O = Origins(run, pc, scope, seeds)
        self.scope = self.O.scope
        # validator OK disjuncts per command
        self.ok = {}
        for cmd, v in maps["_validation_mappings"].items():
            exits = self.X.validator_exits(v, pc) if v is not None else []
            self.ok[cmd] = [atoms for code, atoms, r, u in exits if code >= 0]
        # commands reaching each function
        self.cmds_of = {}
        for cmd, m in maps["_mappings"].items():
            seen = set()
            todo = [(m, pc)]
            while todo:
                fn, sc = todo.pop()
                if fn.qualname in seen or fn is ens:
                    continue
                seen.add(fn.qualname)
                for call, cs in A.callees(fn, sc):
                    for c in cs:
                        if c.fn is not None:
                            todo.append((c.fn, c.self_cls))
            for q in seen:
                self.cmds_of.setdefault(q, set()).add(cmd)

    def validator_atoms(self, fn, path):
        """Atoms about `path` (and its prefixes) that hold in every OK disjunct
        (of every command reaching fn) in which the path is present."""
        cmds = self.cmds_of.get(fn.qualname)
        if not cmds:
            return None
        common = None
        for cmd in cmds:
            for dj in self.ok.get(cmd, []):
                concerned = {a for a in dj if a.path == path or a.path == path[:len(a.path)]}
                base = path
                while base and base[-1] == "*":
                    base = base[:-1]
                present = any(a.kind in ("present", "bip32") and a.path == path for a in dj) or not path or \
                    (path[-1] == "*" and (not base or any(a.kind == "present" and a.path == base for a in dj)))
                if not present:
                    continue
                common = concerned if common is None else (common & concerned)
        return common

    def validator_present(self, fn, path, local=()):
        """The path is present in EVERY accepted form (OK disjunct) of every command reaching fn that is compatible with what fn itself
        has established (`local` atoms) - i.e. no accepted request can make request[...path] fail here."""
        cmds = self.cmds_of.get(fn.qualname)
        if not cmds:
            return False
        seen = False
        for cmd in cmds:
            for dj in self.ok.get(cmd, []):
                if _contradicts(dj, local):
                    continue
                seen = True
                if not any(a.kind in ("present", "bip32") and a.path == path for a in dj):
                    return False
        return seen


def _contradicts(dj, local):
    """a local atom that cannot hold together with disjunct dj (presence against absence of the same path)"""
    pres = {a.path for a in dj if a.kind in ("present", "bip32")}
    absn = {a.path for a in dj if a.kind == "absent"}
    for a in local:
        if a.kind in ("present", "bip32") and a.path in absn:
            return True
        if a.kind == "absent" and a.path in pres:
            return True
    return False


def _type_atoms(atoms, path):
    return {a.args[0] for a in atoms if a.kind in ("type",) and a.path == path}


class Prims:
    """Tier-2 primitive table (prim_hook for ExcAnalysis)."""

    def __init__(self, run, ctx, justified):
        self.run, self.ctx = run, ctx
        self.A, self.P = run.A, run.P
        self.F = Facts(run.A)
        self.justified = justified
        self.sites = []          # census
        self.used_just = set()

    def origins(self, e, fn, sc):
        if fn.qualname not in self.ctx.scope and fn.qualname not in self.ctx.O.env:
            return {K}
        return self.ctx.O.of(e, fn, sc)

    def local_atoms(self, node, fn, sc):
        """Atoms established by dominating conditions in fn at `node`, plus
        atoms of completed second-stage validators."""
        A = self.A
        if isinstance(fn.node, ast.Lambda):
            return set()
        g = A.cfg(fn, sc)
        roots = {}
        for name, os_ in self.ctx.O.env.get(fn.qualname, {}).items():
            rs = [o for o in os_ if o[0] == "R"]
            if len(rs) == 1 and len(os_) == 1:
                roots[name] = rs[0][1]
        env = PathEnv(A, fn, roots, sc)
        out = set()
        for cn in g.nodes_of(node):
            for f in self.F.local(fn, sc, cn):
                a = self.ctx.X.atoms_of_fact(f, env)
                if a:
                    out |= set(a)
            try:
                for oks in self.ctx.X.ok_facts_of_completed(fn, sc, cn, env):
                    if oks:
                        inter = set(oks[0])
                        for o in oks[1:]:
                            inter &= set(o)
                        out |= inter
            except AnalysisError:
                pass
        return out

    def _fold_locals(self, e, fn, sc, depth=0):
        """try_fold, with locals that are bound once to something that folds (named limits computed from other named constants) spelled out"""
        ok, k = try_fold(self.P, e, fn, sc)
        if ok or depth > 4:
            return ok, k
        import copy as _copy
        A_ = self.A

        class T(ast.NodeTransformer):
            def visit_Name(s_, node):
                if isinstance(node.ctx, ast.Load):
                    ds = defs_of(A_, fn, node.id)
                    if len(ds) == 1 and getattr(ds[0], "value", None) is not None and isinstance(ds[0], ast.Assign):
                        ok2, k2 = self._fold_locals(ds[0].value, fn, sc, depth + 1)
                        if ok2 and isinstance(k2, (int, str, bytes)) and not isinstance(k2, bool):
                            return ast.copy_location(ast.Constant(value=k2), node)
                return node
        e2 = T().visit(_copy.deepcopy(e))
        if ast.dump(e2) == ast.dump(e):
            return False, None
        return try_fold(self.P, ast.fix_missing_locations(e2), fn, sc)

    def local_name_bounds(self, node, name, fn, sc):
        """(lo, hi) implied for local int `name` by dominating comparisons with constants."""
        g = self.A.cfg(fn, sc)
        lo = hi = None
        for cn in g.nodes_of(node):
            for f in self.F.local(fn, sc, cn):
                if f.kind != "cmp":
                    continue
                if norm(f.left) == name:
                    ok, k = self._fold_locals(f.right, fn, sc)
                    op = f.op
                elif norm(f.right) == name:
                    ok, k = self._fold_locals(f.left, fn, sc)
                    op = {"<": ">", "<=": ">=", ">": "<", ">=": "<=", "==": "=="}.get(f.op)
                else:
                    continue
                if not ok or not isinstance(k, int) or op is None:
                    continue
                if op == "<=":
                    hi = k if hi is None else min(hi, k)
                elif op == "<":
                    hi = k - 1 if hi is None else min(hi, k - 1)
                elif op == ">=":
                    lo = k if lo is None else max(lo, k)
                elif op == ">":
                    lo = k + 1 if lo is None else max(lo, k + 1)
                elif op == "==":
                    lo = hi = k
        return lo, hi

    def path_atoms(self, node, fn, sc, path):
        va = self.ctx.validator_atoms(fn, path)
        la = {a for a in self.local_atoms(node, fn, sc)
              if a.path == path or a.path == path[:len(a.path)]}
        return (va or set()) | la

    def _range_of(self, atoms, path):
        lo = hi = None
        for a in atoms:
            if a.kind == "range" and a.path == path:
                op, k = a.args
                if op == "<=":
                    hi = k if hi is None else min(hi, k)
                elif op == "<":
                    hi = k - 1 if hi is None else min(hi, k - 1)
                elif op == ">=":
                    lo = k if lo is None else max(lo, k)
                elif op == ">":
                    lo = k + 1 if lo is None else max(lo, k + 1)
        return lo, hi

    def just(self, fn, expr, exc):
        key = (fn.qualname, norm(expr), exc)
        for j in self.justified:
            if (j["function"], j["expression"], j["exception"]) == key:
                self.used_just.add(key)
                return True
        return False

    def record(self, fn, node, prim, verdict, detail=""):
        self.sites.append({"function": fn.qualname, "line": getattr(node, "lineno", 0),
                           "primitive": prim, "expr": norm(node)[:80], "verdict": verdict,
                           "detail": detail})

    # -- the hook ------------------------------------------------------------
    def __call__(self, n, fn, sc, exc):
        out = []
        P = self.P
        if fn.qualname not in self.ctx.O.env:
            return out
        if isinstance(n, ast.Call):
            nm = call_name(n)
            f = n.func
            # x.to_bytes(n, ...)
            if nm == "to_bytes" and isinstance(f, ast.Attribute):
                out += self._to_bytes(n, fn, sc)
            elif nm == "fromhex" and isinstance(f, ast.Attribute) and norm(f.value) == "bytes" and n.args:
                out += self._fromhex(n, fn, sc)
            elif nm == "decode" and isinstance(f, ast.Attribute) and norm(f.value) == "rlp":
                if any(is_client(o) for o in self.origins(n.args[0], fn, sc)):
                    self.record(fn, n, "rlp.decode", "raises", "Exception")
                    out.append(("Exception", f"rlp.decode({norm(n.args[0])[:40]}) on client data"))
            elif nm == "encode" and isinstance(f, ast.Attribute) and norm(f.value) == "rlp" and n.args:
                # re-encoding a structure decoded from client bytes: rlp.decode is iterative enough to accept lists nested a
                # few hundred levels deep, the recursive encoder then exceeds the interpreter's recursion limit
                if any(o in (RLP, RLPE) or is_client(o) for o in self.origins(n.args[0], fn, sc)):
                    if not self.just(fn, n, "RecursionError"):
                        self.record(fn, n, "rlp.encode", "raises", "RecursionError")
                        out.append(("RecursionError", f"rlp.encode({norm(n.args[0])[:40]}) of a structure decoded from client data (lists nested some hundred levels deep)"))
            elif nm == "loads" and isinstance(f, ast.Attribute) and norm(f.value) == "json":
                self.record(fn, n, "json.loads", "raises", "JSONDecodeError, ValueError, RecursionError")
                for e in ("JSONDecodeError", "ValueError", "RecursionError"):
                    out.append((e, f"json.loads({norm(n.args[0])[:30]}) on the request line "
                                   + {"ValueError": "(integer literal over the digit limit)",
                                      "RecursionError": "(deeply nested document)",
                                      "JSONDecodeError": ""}[e]))
            elif nm in ("get", "pop", "setdefault") and isinstance(f, ast.Attribute) and n.args \
                    and not any(is_client(b) for b in self.origins(f.value, fn, sc)) and any(o[0] == "R" for o in self.origins(n.args[0], fn, sc)):
                # a client value used as the key of an internal table through .get(): hashing it raises TypeError for a list / object
                out += self._hash_key(n, n.args[0], f.value, fn, sc)
            elif nm == "len" and isinstance(f, ast.Name) and n.args:
                out += self._needs_type(n, n.args[0], fn, sc, {"list", "str", "dict", "bytes"}, "len()")
            elif nm == "int" and isinstance(f, ast.Name) and n.args:
                cl_ = [o for o in self.origins(n.args[0], fn, sc) if is_client(o)]
                if cl_:
                    # int(v): ValueError for a non-numeric string / NaN, TypeError for null / arrays / objects, OverflowError for an
                    # infinite float (JSON 1e999) - unless dominating type tests exclude the case
                    tys = set()
                    known_all = True
                    for o in cl_:
                        if o[0] == "R":
                            t_ = _type_atoms(self.path_atoms(n, fn, sc, o[1]), o[1])
                            if t_:
                                tys |= t_
                            else:
                                known_all = False
                        else:
                            known_all = False
                    excs = []
                    if not known_all or tys & {"str", "float"}:
                        excs.append("ValueError")
                    if not known_all or tys - {"str", "int", "float", "bool"}:
                        excs.append("TypeError")
                    if not known_all or "float" in tys:
                        excs.append("OverflowError")
                    self.record(fn, n, "int()", "raises" if excs else "disarmed", ", ".join(excs) or "type known to be int")
                    for e_ in excs:
                        out.append((e_, f"int({norm(n.args[0])[:30]}) on client data" + {"OverflowError": " (an infinite float, e.g. JSON 1e999)",
                                                                                         "TypeError": " (null / array / object)", "ValueError": ""}[e_]))
            elif nm == "bytes" and isinstance(f, ast.Name) and n.args and isinstance(n.args[0], ast.List):
                for el in n.args[0].elts:
                    os_ = self.origins(el, fn, sc)
                    if any(is_client(o) for o in os_):
                        lo, hi = (None, None)
                        if isinstance(el, ast.Name):
                            lo, hi = self.local_name_bounds(n, el.id, fn, sc)
                        elif isinstance(el, ast.Call) and call_name(el) == "len":
                            lo, hi = self.local_name_bounds(n, norm(el), fn, sc)
                            lo = 0
                        if hi is not None and hi <= 255 and (lo or 0) >= 0:
                            self.record(fn, n, "bytes([x])", "disarmed", f"bounded <= {hi}")
                        else:
                            self.record(fn, n, "bytes([x])", "raises", "ValueError")
                            out.append(("ValueError", f"bytes([{norm(el)[:30]}]) with a client-controlled value"))
            else:
                # calls into the third-party transaction codec (python-bitcoinlib) and
                # methods of its objects, on client-derived data: any exception
                if self._uses_btc_lib(fn) and not any(c.fn is not None for c in self.A.resolve_call(n, fn, sc)):
                    parts = list(n.args) + [k.value for k in n.keywords]
                    if isinstance(f, ast.Attribute):
                        parts.append(f.value)
                    cl = [o for p_ in parts for o in self.origins(p_, fn, sc) if is_client(o)]
                    if cl and all(o == LEN for o in cl):
                        self.record(fn, n, "third-party codec call", "disarmed", "argument is a length (non-negative int)")
                    elif cl and nm not in ("hex", "len", "fromhex", "debug", "info", "error"):
                        self.record(fn, n, "third-party codec call", "raises", "Exception")
                        out.append(("Exception", f"`{norm(n)[:50]}`: python-bitcoinlib call on client data"))
                # Enum(value)
                cs = self.A.resolve_call(n, fn, sc)
                for c in cs:
                    if c.how == "ctor-noinit" and c.self_cls is not None and P.is_enum(c.self_cls) and n.args:
                        out += self._enum(n, c.self_cls, fn, sc)
                # method call on an RLP-decoded item
                if isinstance(f, ast.Attribute) and nm not in ("append",):
                    os_ = self.origins(f.value, fn, sc)
                    if RLPE in os_:
                        la = self.local_atoms(n, fn, sc)
                        guarded = self._rlp_item_typed(n, f.value, fn, sc)
                        if guarded:
                            self.record(fn, n, "method on RLP item", "disarmed", "type guard")
                        elif not self.just(fn, n, "AttributeError"):
                            self.record(fn, n, "method on RLP item", "raises", "AttributeError")
                            out.append(("AttributeError",
                                        f"`{norm(n)[:40]}`: an RLP-decoded item may be a list (no .{nm})"))
        elif isinstance(n, ast.Compare) and len(n.ops) == 1 and isinstance(n.ops[0], (ast.In, ast.NotIn)):
            out += self._hash_key(n, n.left, n.comparators[0], fn, sc)
        elif isinstance(n, ast.Compare) and any(isinstance(o, (ast.Lt, ast.LtE, ast.Gt, ast.GtE)) for o in n.ops):
            for side in [n.left] + list(n.comparators):
                out += self._needs_type(n, side, fn, sc, {"int", "float"}, "ordering comparison")
        elif isinstance(n, (ast.For, ast.comprehension)):
            out += self._needs_type(n.iter if isinstance(n, ast.For) else n.iter, n.iter, fn, sc,
                                    {"list", "str", "dict"}, "iteration")
        elif isinstance(n, ast.Subscript) and isinstance(n.ctx, ast.Load):
            out += self._subscript(n, fn, sc)
        return out

    def _uses_btc_lib(self, fn):
        imp = fn.module.imports
        return any(v[0] == "module" and v[1].startswith("bitcoin") for v in imp.values()) or \
            any(v[0] == "from" and v[1].startswith("bitcoin") for v in imp.values())

    def _needs_type(self, node, operand, fn, sc, types, what):
        """A request value used where only `types` work (len(), iteration, ordering)."""
        out = []
        for o in self.origins(operand, fn, sc):
            if o[0] != "R":
                continue
            atoms = self.path_atoms(node, fn, sc, o[1])
            tys = _type_atoms(atoms, o[1])
            if o[1] and o[1][-1] == "*":
                tys |= {a.args[0] for a in atoms if a.kind == "type" and a.path == o[1]}
            if tys & types:
                self.record(fn, node, what, "disarmed", f"request.{'.'.join(o[1])}: type {sorted(tys)}")
                continue
            if self.just(fn, node if not isinstance(node, ast.comprehension) else operand, "TypeError"):
                continue
            self.record(fn, node, what, "raises", "TypeError")
            out.append(("TypeError", f"{what} on request.{'.'.join(o[1]) or '<request>'} whose type is not known to be one of "
                                     f"{sorted(types)} here (`{norm(operand)[:40]}`)"))
        return out

    def _rlp_item_typed(self, node, item, fn, sc):
        g = self.A.cfg(fn, sc)
        for cn in g.nodes_of(node):
            for f in self.F.local(fn, sc, cn):
                if f.kind == "cmp" and f.op == "==" and norm(f.left) == f"type({norm(item)})" \
                        and norm(f.right) == "bytes":
                    return True
                if f.kind == "call" and f.pol and call_name(f.expr) == "isinstance" \
                        and norm(f.expr.args[0]) == norm(item) and norm(f.expr.args[1]) == "bytes":
                    return True
        return False

    def _to_bytes(self, n, fn, sc):
        P = self.P
        recv = n.func.value
        os_ = self.origins(recv, fn, sc)
        if not any(is_client(o) for o in os_):
            return []
        ok, width = try_fold(P, kwarg(n, "length", 0), fn, sc)
        if not ok or not isinstance(width, int):
            # local constant name
            w = kwarg(n, "length", 0)
            if isinstance(w, ast.Name):
                ds = defs_of(self.A, fn, w.id)
                if len(ds) == 1:
                    ok, width = try_fold(P, ds[0].value, fn, sc)
        if not ok or not isinstance(width, int):
            raise AnalysisError(f"{fn.qualname}: to_bytes width `{norm(n)}` not constant (UNDECIDED)")
        signed = kwarg(n, "signed", 2)
        is_signed = isinstance(signed, ast.Constant) and signed.value is True
        cap = 256 ** width - 1
        verdicts = []
        for o in os_:
            if not is_client(o):
                continue
            if o[0] == "R":
                atoms = self.path_atoms(n, fn, sc, o[1])
                lo, hi = self._range_of(atoms, o[1])
                tys = _type_atoms(atoms, o[1])
                if "int" in tys and lo is not None and hi is not None and lo >= 0 and hi <= cap:
                    verdicts.append(("disarmed", f"request.{'.'.join(o[1])} in [{lo}, {hi}]"))
                else:
                    verdicts.append(("raises", f"request.{'.'.join(o[1])}: type {sorted(tys) or '?'}, "
                                               f"range [{lo}, {hi}] not within [0, {cap}]"))
            elif o == LEN and width >= 4:
                verdicts.append(("disarmed", "length of client data, width >= 4 (size axiom: < 2^32)"))
            else:
                lo = hi = None
                if isinstance(recv, ast.Name):
                    lo, hi = self.local_name_bounds(n, recv.id, fn, sc)
                elif isinstance(recv, ast.Call) and call_name(recv) == "len":
                    lo, hi = self.local_name_bounds(n, norm(recv), fn, sc)
                    lo = 0
                nonneg = o == LEN or (lo is not None and lo >= 0) or self._nonneg_by_construction(recv, fn, sc)
                if hi is not None and hi <= cap and nonneg:
                    verdicts.append(("disarmed", f"bounded by dominating guard <= {hi}"))
                else:
                    verdicts.append(("raises", f"client-derived value with no dominating bound <= {cap}"))
        bad = [d for v, d in verdicts if v == "raises"]
        if bad and not self.just(fn, n, "OverflowError"):
            self.record(fn, n, "to_bytes", "raises", "; ".join(bad))
            return [("OverflowError", f"`{norm(n)[:60]}`: {bad[0]}")]
        self.record(fn, n, "to_bytes", "disarmed", "; ".join(d for v, d in verdicts))
        return []

    def _nonneg_by_construction(self, recv, fn, sc):
        # values produced by rlp_first_element_list_payload_length / len arithmetic are >= 0
        if isinstance(recv, ast.Name):
            ds = defs_of(self.A, fn, recv.id)
            return bool(ds) and all(isinstance(d.value, ast.Call) and
                                    call_name(d.value) in ("rlp_mm_payload_size", "len") for d in ds)
        return False

    def _fromhex(self, n, fn, sc):
        arg = n.args[0]
        os_ = self.origins(arg, fn, sc)
        if not any(is_client(o) for o in os_):
            return []
        bad = []
        for o in os_:
            if not is_client(o):
                continue
            if o[0] == "R":
                atoms = self.path_atoms(n, fn, sc, o[1])
                if any(a.kind == "hex" and a.path == o[1] for a in atoms):
                    continue
                bad.append(f"request.{'.'.join(o[1])} has no hex-string fact here")
            elif o == H:
                continue
            else:
                if self._hex_established(n, arg, fn, sc) or self._returns_hex(arg, fn, sc):
                    continue
                bad.append("client-derived string not known to be hexadecimal")
        if bad and self._hex_established(n, arg, fn, sc):
            bad = []
        if bad and not self.just(fn, n, "ValueError"):
            self.record(fn, n, "bytes.fromhex", "raises", "; ".join(bad))
            return [("ValueError", f"`{norm(n)[:50]}`: {bad[0]}")]
        self.record(fn, n, "bytes.fromhex", "disarmed")
        return []

    def _returns_hex(self, arg, fn, sc):
        """arg is (a name bound to) a call of a repo function all of whose
        returns are `<expr>.hex()`."""
        e = arg
        if isinstance(e, ast.Name):
            ds = defs_of(self.A, fn, e.id)
            if len(ds) != 1:
                return False
            e = ds[0].value
        if not isinstance(e, ast.Call):
            return False
        cs = [c for c in self.A.resolve_call(e, fn, sc) if c.fn is not None]
        if not cs:
            return False
        for c in cs:
            # (what a function returns through a callable taken from a table is not something this summary can see: undecided rather than "not hex")
            self.A.P._refuse_computed_callees(c.fn)
            rets = [r for r in self.A.own_nodes(c.fn) if isinstance(r, ast.Return)]
            if not rets:
                return False
            for r in rets:
                if not self._hex_valued(r.value, c.fn):
                    return False
        return True

    def _hex_valued(self, v, fn, depth=0):
        """Expression that always evaluates to a hexadecimal string: x.hex(), an even-length
        hex literal, a concatenation of those, or a local name only ever bound to such."""
        if depth > 4 or v is None:
            return False
        if isinstance(v, ast.Call) and call_name(v) == "hex" and isinstance(v.func, ast.Attribute) and not v.args:
            return True
        if isinstance(v, ast.Constant) and isinstance(v.value, str):
            return len(v.value) % 2 == 0 and all(ch in "0123456789abcdefABCDEF" for ch in v.value)
        if isinstance(v, ast.BinOp) and isinstance(v.op, ast.Add):
            return self._hex_valued(v.left, fn, depth + 1) and self._hex_valued(v.right, fn, depth + 1)
        if isinstance(v, ast.Name):
            ds = defs_of(self.A, fn, v.id)
            return bool(ds) and all(self._hex_valued(d.value, fn, depth + 1) for d in ds)
        return False

    def _hex_established(self, node, arg, fn, sc, depth=0):
        """A call f(arg) completed normally before `node` where f's normal
        return is dominated by bytes.fromhex(<that parameter>)."""
        if not isinstance(arg, ast.Name) or depth > 3 or isinstance(fn.node, ast.Lambda):
            return False
        g = self.A.cfg(fn, sc)
        for cn in g.nodes_of(node):
            for call, d in self.F.completed_calls(fn, sc, cn):
                idx = None
                for i, a in enumerate(call.args):
                    if isinstance(a, ast.Name) and a.id == arg.id:
                        idx = i
                if idx is None:
                    continue
                if call_name(call) == "fromhex":
                    return True
                for c in self.A.resolve_call(call, fn, sc):
                    if c.fn is None or isinstance(c.fn.node, ast.Lambda):
                        continue
                    ps = c.fn.params
                    off = 1 if (c.fn.cls is not None and not c.fn.is_static) else 0
                    if idx + off >= len(ps):
                        continue
                    pname = ps[idx + off]
                    cg = self.A.cfg(c.fn, c.self_cls)
                    if not cg.is_reachable(cg.exit):
                        continue
                    fake = ast.Name(id=pname, ctx=ast.Load())
                    # look for a dominating fromhex(param) or nested establishing call
                    for call2, d2 in self.F.completed_calls(c.fn, c.self_cls, cg.exit):
                        if call_name(call2) == "fromhex" and call2.args and norm(call2.args[0]) == pname:
                            return True
                    if self._hex_established_exit(c.fn, c.self_cls, pname, depth + 1):
                        return True
        return False

    def _hex_established_exit(self, fn, sc, pname, depth):
        if depth > 3:
            return False
        cg = self.A.cfg(fn, sc)
        for call, d in self.F.completed_calls(fn, sc, cg.exit, include_self=True):
            idx = None
            for i, a in enumerate(call.args):
                if isinstance(a, ast.Name) and a.id == pname:
                    idx = i
            if idx is None:
                continue
            if call_name(call) == "fromhex":
                return True
            for c in self.A.resolve_call(call, fn, sc):
                if c.fn is None or isinstance(c.fn.node, ast.Lambda):
                    continue
                ps = c.fn.params
                off = 1 if (c.fn.cls is not None and not c.fn.is_static) else 0
                if idx + off < len(ps) and self._hex_established_exit(c.fn, c.self_cls, ps[idx + off], depth + 1):
                    return True
        return False

    def _enum(self, n, ecls, fn, sc):
        arg = n.args[0]
        os_ = self.origins(arg, fn, sc)
        if not any(is_client(o) for o in os_):
            return []
        vals = {m.value for m in self.P.enum_members(ecls).values()}
        for o in os_:
            if o[0] == "R":
                cmds = self.ctx.cmds_of.get(fn.qualname, set())
                la = self.local_atoms(n, fn, sc)
                ok_all = True
                for cmd in cmds:
                    for dj in self.ctx.ok.get(cmd, []):
                        if not any(a.kind == "present" and a.path == o[1] for a in dj):
                            continue
                        dj = set(dj) | la
                        eqs = {a.args[0] for a in dj if a.kind == "eq" and a.path == o[1]}
                        if not eqs or not eqs <= vals:
                            ok_all = False
                if ok_all and cmds:
                    continue
            if not self.just(fn, n, "ValueError"):
                self.record(fn, n, "Enum(value)", "raises", "ValueError")
                return [("ValueError", f"`{norm(n)[:50]}`: client value not known to be a member value")]
        self.record(fn, n, "Enum(value)", "disarmed")
        return []

    def _hash_key(self, n, key, container, fn, sc):
        os_ = self.origins(key, fn, sc)
        cont = self.origins(container, fn, sc)
        out = []
        for o in os_:
            if o[0] != "R":
                continue
            # membership test of a client value in a dict / keys view / set
            if any(c_[0] == "R" for c_ in cont) and not isinstance(container, (ast.List, ast.Tuple)):
                # `k in request[...]` where the container is client data: fine for str/list/dict
                # containers unless the key is unhashable and the container a dict
                pass
            if isinstance(container, (ast.List, ast.Tuple)):
                continue
            atoms = self.path_atoms(n, fn, sc, o[1])
            tys = _type_atoms(atoms, o[1])
            if tys & {"str", "int", "bool", "float"}:
                self.record(fn, n, "hash(key)", "disarmed", f"type {sorted(tys)}")
                continue
            if self.just(fn, n, "TypeError"):
                continue
            self.record(fn, n, "hash(key)", "raises", "TypeError")
            out.append(("TypeError", f"`{norm(n)[:60]}`: request.{'.'.join(o[1])} may be a list/object "
                                     "(unhashable) when used as a key"))
        return out

    def _enum_index_safe(self, n, idx, fn, sc, base_path):
        if isinstance(fn.node, ast.Lambda):
            return False
        loops = [l for l in ast.walk(fn.node) if isinstance(l, ast.For) and any(x is n for b_ in l.body for x in ast.walk(b_))]
        for l in loops:
            it = l.iter
            if not (isinstance(it, ast.Call) and norm(it.func) == "enumerate" and 1 <= len(it.args) <= 2 and not it.keywords
                    and isinstance(l.target, ast.Tuple) and len(l.target.elts) == 2 and isinstance(l.target.elts[0], ast.Name)):
                continue
            k = 0
            if len(it.args) == 2:
                if not (isinstance(it.args[1], ast.Constant) and isinstance(it.args[1].value, int)):
                    continue
                k = it.args[1].value
            c = l.target.elts[0].id
            okidx = (k == 0 and isinstance(idx, ast.Name) and idx.id == c) or \
                (isinstance(idx, ast.BinOp) and isinstance(idx.op, ast.Sub) and isinstance(idx.left, ast.Name) and idx.left.id == c
                 and isinstance(idx.right, ast.Constant) and idx.right.value == k)
            if not okidx:
                continue
            # the counter is not re-bound inside the loop
            if any(isinstance(x, ast.Name) and x.id == c and isinstance(x.ctx, ast.Store) for b_ in l.body for x in ast.walk(b_)):
                continue
            for o in self.origins(it.args[0], fn, sc):
                if o[0] != "R":
                    continue
                atoms = self.path_atoms(n, fn, sc, base_path) | self.path_atoms(n, fn, sc, o[1])
                if any(a.kind == "leneq" and ((a.path == base_path and a.args == (".".join(o[1]),)) or (a.path == o[1] and a.args == (".".join(base_path),)))
                       for a in atoms):
                    return True
        return False

    def _subscript(self, n, fn, sc):
        out = []
        base = self.origins(n.value, fn, sc)
        idx = n.slice
        if isinstance(idx, ast.Slice):
            return out
        ios = self.origins(idx, fn, sc)
        # client value used as key of an internal table
        if any(o[0] == "R" for o in ios) and not any(is_client(b) for b in base):
            for o in ios:
                if o[0] != "R":
                    continue
                atoms = self.path_atoms(n, fn, sc, o[1])
                tys = _type_atoms(atoms, o[1])
                known = self._membership_fact(n, idx, fn, sc)
                if known:
                    self.record(fn, n, "table[key]", "disarmed", "dominating membership test")
                    continue
                if (tys & {"str", "int"}) and known:
                    self.record(fn, n, "table[key]", "disarmed", "type + membership")
                elif known and tys & {"str", "int"}:
                    pass
                else:
                    if not (tys & {"str", "int", "bool", "float"}):
                        if not self.just(fn, n, "TypeError"):
                            self.record(fn, n, "table[key]", "raises", "TypeError")
                            out.append(("TypeError", f"`{norm(n)[:60]}`: request.{'.'.join(o[1])} may be "
                                                     "unhashable"))
                    elif not known and not self.just(fn, n, "KeyError"):
                        self.record(fn, n, "table[key]", "raises", "KeyError")
                        out.append(("KeyError", f"`{norm(n)[:60]}`: key not known to be in the table"))
            return out
        # constant positional index into a client-derived sequence built by the codec
        if self._uses_btc_lib(fn) and any(b == C for b in base) and not isinstance(idx, ast.Slice):
            ok, k = try_fold(self.P, idx, fn, sc)
            if ok and isinstance(k, int):
                self.record(fn, n, "seq[i]", "raises", "IndexError")
                out.append(("IndexError", f"`{norm(n)[:40]}`: client-derived sequence may be empty"))
        # request["k"] on client data
        for b in base:
            if b[0] != "R":
                continue
            ok, k = try_fold(self.P, idx, fn, sc)
            if ok and isinstance(k, str):
                path = b[1] + (k,)
                atoms = self.path_atoms(n, fn, sc, path)
                la = self.local_atoms(n, fn, sc)
                present = any(a.kind in ("present", "bip32") and a.path == path for a in la) or self.ctx.validator_present(fn, path, la)
                is_dict = not b[1] and any(a.kind == "type" and a.path == () and a.args == ("dict",) for a in la | atoms) \
                    or any(a.kind == "type" and a.path == b[1] and a.args == ("dict",) for a in atoms | la) \
                    or self._parent_is_dict(fn, b[1])
                if present and is_dict:
                    self.record(fn, n, "request[key]", "disarmed", ".".join(path))
                    continue
                if self.just(fn, n, "KeyError"):
                    continue
                self.record(fn, n, "request[key]", "raises", f"present={present} dict={is_dict}")
                out.append(("KeyError" if is_dict else "TypeError",
                            f"`{norm(n)[:50]}`: request.{'.'.join(path)} not known to be present "
                            f"in a dict here (present={present}, parent dict={is_dict})"))
            else:
                # computed key guarded by a dominating `key in container` test
                if self._membership_fact(n, idx, fn, sc):
                    self.record(fn, n, "request[key]", "disarmed", "dominating membership test")
                    continue
                # the counter of `for c, x in enumerate(M, k)` used as index c - k into a list the validator proved as long as M
                if self._enum_index_safe(n, idx, fn, sc, b[1]):
                    self.record(fn, n, "request[i]", "disarmed", "enumerate counter of a list of equal length (validator: leneq)")
                    continue
                # positional / computed index into client list
                if self.just(fn, n, "IndexError"):
                    self.record(fn, n, "request[i]", "justified")
                    continue
                if not any(is_client(o) for o in ios) and isinstance(idx, (ast.Constant,)):
                    continue
                self.record(fn, n, "request[i]", "raises", "IndexError")
                out.append(("IndexError", f"`{norm(n)[:50]}`: computed index into client list"))
        return out

    def _parents(self, fn):
        if not hasattr(self, "_par"):
            self._par = {}
        if fn.qualname not in self._par:
            par = {}
            for x in ast.walk(fn.node):
                for c in ast.iter_child_nodes(x):
                    par[id(c)] = x
            self._par[fn.qualname] = par
        return self._par[fn.qualname]

    def _parent_is_dict(self, fn, path):
        """type(<path>) == dict holds in every OK disjunct of the commands reaching fn
        (top-level request is a dict once the gate let it through)."""
        if not path:
            return True
        va = self.ctx.validator_atoms(fn, path)
        return bool(va) and any(a.kind == "type" and a.path == path and a.args == ("dict",) for a in va)

    def _membership_fact(self, n, idx, fn, sc):
        # `key in c and ... c[key] ...` inside one expression (short-circuit)
        par = self._parents(fn)
        cur = n
        while id(cur) in par:
            p = par[id(cur)]
            if isinstance(p, ast.BoolOp) and isinstance(p.op, ast.And):
                for v in p.values:
                    if v is cur:
                        break
                    if isinstance(v, ast.Compare) and len(v.ops) == 1 and isinstance(v.ops[0], ast.In) \
                            and norm(v.left) == norm(idx):
                        return True
            cur = p
        g = self.A.cfg(fn, sc)
        for cn in g.nodes_of(n):
            for f in self.F.local(fn, sc, cn):
                if f.kind == "cmp" and f.op == "in" and norm(f.left) == norm(idx):
                    return True
        return False


# ---------------------------------------------------------------------------
def run(run):
    P, A = run.P, run.A
    with open(JUST) as f:
        justified = json.load(f)["sites"]
    handler = P.func("comm.server._RequestHandler.handle")
    _reply_paths(run, handler)
    _reply_shape(run)
    _fatal_escape(run, handler, justified)
    _shutdown_roads(run)


def _reply_paths(run, handler):
    P, A = run.P, run.A
    run.rule("R1", "In _RequestHandler.handle every path that obtained a request line (decode "
             "completed, or the UnicodeDecodeError handler entered) calls _reply exactly once "
             "before leaving the function, normally or exceptionally.")
    g = A.cfg(handler, None)
    replies = [n for c in find_calls(A, handler, "_reply") for n in g.nodes_of(c)]
    run.floor("R1", "_reply call nodes", len(replies), 2)
    # starting points: node after decode, and the UnicodeDecodeError handler entry
    decode = [n for c in find_calls(A, handler, "decode") for n in g.nodes_of(c)]
    run.require(len(decode) == 1, "handle: the line.decode(...) statement vanished")
    starts = []
    rl = [n for c in find_calls(A, handler, "readline") for n in g.nodes_of(c)]
    run.require(len(rl) == 1, "handle: the rfile.readline() statement vanished")
    for s in g.succ[rl[0]]:
        if s.kind not in ("dispatch", "raise", "handler") and not (s.kind == "join" and "finally" in s.note):
            starts.append(("request line read", s))
    for n in g.nodes:
        if n.kind == "handler" and n.ast.type is not None and "UnicodeDecodeError" in norm(n.ast.type):
            starts.append(("undecodable line", n))
    run.floor("R1", "request-obtained entry points", len(starts), 2)
    exits = [g.exit, g.raise_exit]
    npaths = 0
    # implicit exception edges are followed only out of statements that the
    # exception analysis says can raise (logger calls, json.dumps of an internal
    # dict, format() do not; json.loads / handle_request / explicit raises do)
    E1 = ExcAnalysis(A, prim_hook=lambda n, fn, sc, e: (
        [("ValueError", "json.loads")] if isinstance(n, ast.Call) and call_name(n) == "loads" else
        ([("UnicodeDecodeError", "decode")] if isinstance(n, ast.Call) and call_name(n) == "decode" else [])))
    raising = {}

    def edge_ok(a, b):
        if not g.is_exc_edge(a, b):
            return True
        if a not in raising:
            r = False
            if a.ast is not None and a.kind in ("stmt", "cond", "with", "for"):
                r = bool(E1._expr(a.ast if a.kind != "for" else a.ast.iter, handler, None, {}))
            raising[a] = r
        return raising[a]
    for label, s in starts:
        # zero replies: a path to an exit avoiding all reply nodes
        for ex in exits:
            p = g.witness_path(s, ex, avoid=set(replies), edge_ok=edge_ok)
            run.check("R1", p is None, f"{label}: no exit without a reply",
                      key=f"_RequestHandler.handle|{label}|{'normal' if ex is g.exit else 'exceptional'}-exit-without-reply",
                      where=handler.loc(), message=f"after a {label}, handle can leave "
                      f"({'return' if ex is g.exit else 'exception'}) without having written a reply",
                      witness=g.describe_path(p) if p else None)
        # two replies: a path from one reply node to another (or itself)
        for r in replies:
            if r not in g.reachable(s, edge_ok=edge_ok):
                continue
            for r2 in replies:
                later = set()
                for x in g.succ[r]:
                    if edge_ok(r, x):
                        later |= g.reachable(x, edge_ok=edge_ok)
                run.check("R1", r2 not in later, f"{label}: at most one reply",
                          key=f"_RequestHandler.handle|{label}|double-reply:{r.lineno}->{r2.lineno}",
                          where=handler.loc(r2.ast), message="handle can write two replies for one request")
                npaths += 1
    run.extra["reply_path_queries"] = npaths
    # _reply itself swallows write errors and returns
    rep = P.func("comm.server._RequestHandler._reply")
    E = ExcAnalysis(A)
    esc = E.esc(rep, None)
    run.check("R1", not esc, "_reply raises nothing", key="_RequestHandler._reply|escapes", where=rep.loc(),
              message=f"_reply can raise {sorted(esc)}")


def _reply_shape(run):
    P, A = run.P, run.A
    run.rule("R2", "Every value that can reach the reply is a dict with ERROR_CODE_KEY bound to an int: "
             "every return of every command method is a tuple whose head folds to an int (or a "
             "_translate_* result), 1-tuples are provably negative, 2-tuples carry a dict; gate "
             "returns are {ERROR_CODE_KEY: int} or the operation's dict with the key added; "
             "format_error / unknown_error return such dicts.")
    nret = 0
    for pc in protocol_classes(run):
        maps = command_methods(run, pc)
        for cmd, m in sorted(maps["_mappings"].items()):
            for r in [n for n in A.own_nodes(m) if isinstance(n, ast.Return)]:
                v = r.value
                nret += 1
                tag = f"{pc.name}.{m.name}"
                if isinstance(v, ast.Call) and A.is_noreturn_call(v, m, pc):
                    run.ok("R2", f"{tag}: return of a no-return helper", m.loc(r))
                    continue
                if not isinstance(v, ast.Tuple) or len(v.elts) not in (1, 2):
                    run.fail("R2", f"{tag}|return {norm(v)[:40] if v else 'None'}|not-a-tuple", m.loc(r),
                             f"{tag} returns `{norm(v) if v else None}`: the gate indexes the result as a tuple")
                    continue
                vs = value_set(run, v.elts[0], m, pc)
                if len(v.elts) == 1 and isinstance(v.elts[0], ast.Name):
                    gm = A.cfg(m, pc)
                    for rn in gm.nodes_of(r):
                        # the returned local, or the local it is a plain copy of on this path (`code = verdict; return (code,)`)
                        same = {v.elts[0].id}
                        from sa.prov import Prov as _Prov
                        rds_ = _Prov(A).reaching(m, pc, v.elts[0].id, rn)
                        if len(rds_) == 1 and rds_[0].kind == "assign" and isinstance(rds_[0].value, ast.Name):
                            same.add(rds_[0].value.id)
                        for f in Facts(A).local(m, pc, rn):
                            if f.kind == "cmp" and f.op == "<" and norm(f.left) in same:
                                okb, kb = try_fold(P, f.right, m, pc)
                                if okb and isinstance(kb, int) and kb <= 0:
                                    vs = {x for x in vs if x < kb}
                if len(v.elts) == 1:
                    run.check("R2", all(isinstance(x, int) and x < 0 for x in vs),
                              f"{tag}: 1-tuple return is negative ({sorted(vs)})",
                              key=f"{tag}|return {norm(v)[:40]}|1-tuple-nonnegative", where=m.loc(r),
                              message=f"{tag} returns the 1-tuple `{norm(v)}` whose code can be "
                                      f"{sorted(x for x in vs if x >= 0)}: the gate would index [1] (IndexError)")
                else:
                    okd = isinstance(v.elts[1], ast.Dict)
                    run.check("R2", all(isinstance(x, int) for x in vs) and okd,
                              f"{tag}: 2-tuple return (int, dict)",
                              key=f"{tag}|return {norm(v)[:40]}|shape", where=m.loc(r),
                              message=f"{tag} returns `{norm(v)[:60]}`: second element must be a dict literal")
            # every path ends in a return (no fall-through None)
            g = A.cfg(m, pc)
            fall = [p for p in g.pred[g.exit] if not (p.kind == "stmt" and isinstance(p.ast, ast.Return))]
            run.check("R2", not fall, f"{pc.name}.{m.name}: no fall-through return None",
                      key=f"{pc.name}.{m.name}|falls-through", where=m.loc(),
                      message=f"{pc.name}.{m.name} can fall off its end (returns None): the gate would raise TypeError")
        for hname in ("format_error", "unknown_error", "device_error", "_invalid_request", "_wrong_version",
                      "_command_unknown"):
            h = P.method(pc, hname)
            for r in [n for n in A.own_nodes(h) if isinstance(n, ast.Return)]:
                v = r.value
                ok = isinstance(v, ast.Dict) and len(v.keys) == 1 and norm(v.keys[0]) == "self.ERROR_CODE_KEY"
                okv = False
                if ok:
                    f, val = try_fold(P, v.values[0], h, pc)
                    okv = f and isinstance(val, int) and not isinstance(val, bool)
                run.check("R2", ok and okv, f"{pc.name}.{hname} returns {{errorcode: int}}",
                          key=f"{pc.name}.{hname}|shape", where=h.loc(r),
                          message=f"{hname} does not return {{ERROR_CODE_KEY: <int>}}")
    run.floor("R2", "command returns", nret, 40)
    gate = P.func("comm.protocol.HSM2Protocol.__internal_handle_request")
    gg_ = A.cfg(gate, P.cls("comm.protocol.HSM2Protocol"))
    def _is_op_call(n):
        if isinstance(n.func, ast.Subscript) and norm(n.func.value) == "self._mappings":
            return True
        if isinstance(n.func, ast.Name):        # the handler looked up first and called afterwards
            ds_ = defs_of(A, gate, n.func.id)
            return bool(ds_) and all(getattr(d_, "value", None) is not None and "self._mappings" in norm(d_.value) for d_ in ds_)
        return False
    opcalls = [x for n in A.own_nodes(gate) if isinstance(n, ast.Call) and _is_op_call(n) for x in gg_.nodes_of(n)]
    if not opcalls:
        run.note("gate: the operation call was not identified; returns of plain names are judged by shape only")
    for r in [n for n in A.own_nodes(gate) if isinstance(n, ast.Return)]:
        v = r.value
        ok = (isinstance(v, ast.Call) and call_name(v) in ("format_error", "_invalid_request", "_wrong_version",
                                                            "_command_unknown")) \
            or (isinstance(v, ast.Dict) and len(v.keys) == 1 and norm(v.keys[0]) == "self.ERROR_CODE_KEY") \
            or (bool(opcalls) and all(any(gg_.dominates(o, rn) for o in opcalls) for rn in gg_.nodes_of(r)))       # the operation's reply: assembled as rule A.R8 says
        run.check("R2", ok, "gate return is an errorcode dict", key=f"gate|return {norm(v)[:40]}|shape",
                  where=gate.loc(r), message=f"the gate returns `{norm(v)[:60]}`")
    # the operation's (code, data) pair becomes {.., errorcode: code}: reply assembly (rule R8 of C13) under the prefix A.
    from . import c13
    run.rid_prefix = "A."
    try:
        c13.reply_assembly(run, "R8")
    finally:
        run.rid_prefix = ""


def _fatal_escape(run, handler, justified):
    P, A = run.P, run.A
    run.rule("R3", "No exception caused by client-controlled data reaches the fatal handlers of "
             "_RequestHandler.handle (`except HSM2ProtocolError`, `except Exception`, and anything "
             "that is not answered): tier 1 explicit raises plus tier 2 primitives (json.loads, "
             "to_bytes, bytes.fromhex, rlp.decode, Enum(v), int(), bytes([x]), dict-key hashing, "
             "request subscripts, methods on RLP items) on request-derived operands, each disarmed "
             "only by validator atoms, dominating guards, enclosing handlers, or a justified entry.")
    NONCLIENT = ("HSM2DongleBaseError", "HSM2ProtocolError", "HSM2ProtocolInterrupt")
    total_sites = 0
    reported = set()
    census = {}
    for pc in protocol_classes(run):
        ctx = Ctx(run, pc)
        prims = Prims(run, ctx, justified)
        E = ExcAnalysis(A, prim_hook=prims, cut={ctx.ens.qualname}, site_tags=True)
        hr = P.method(pc, "handle_request")
        esc = E.esc(hr, pc)
        total_sites += len(prims.sites)
        for s in prims.sites:
            census[(s["function"], s["line"], s["primitive"])] = s
        for exc_tagged, w in sorted(esc.items()):
            exc = exc_tagged.split("@", 1)[0]
            if any(E.is_sub(exc, b) for b in NONCLIENT):
                continue
            # tier-1 raise in a function none of whose inputs derive from the client
            # (e.g. DER parsing of the device's signature): device axiom, not client-caused
            ofn = P.functions.get(w.chain[-1][0])
            if ofn is not None and not _has_client_input(ctx, ofn) and exc != "NotImplementedError":
                run.extra.setdefault("device_caused_excluded", []).append(f"{exc} at {w.chain[-1][0]}:{w.chain[-1][1]}")
                continue
            if exc == "NotImplementedError":
                origin = w.chain[-1]
                run.fail("R3", f"{origin[0]}|{origin[2]}|NotImplementedError", f"{origin[0]}:{origin[1]}",
                         f"[{pc.name}] a command resolves to a not-implemented stub: the server answers "
                         "`{}` (no errorcode)", witness=w.render()[:500])
                continue
            origin = w.chain[-1]
            key = f"{origin[0]}|{origin[2]}|{exc}"
            if key in reported:
                continue
            reported.add(key)
            fnq = origin[0]
            rel = P.functions[fnq].module.relpath if fnq in P.functions else "?"
            run.fail("R3", key, f"{rel}:{origin[1]}",
                     f"{exc} caused by client data can reach the server's fatal handlers "
                     f"(reply without errorcode / manager shutdown): {origin[2]}",
                     witness=f"[{pc.name}] " + w.render()[:600])
        n_ok = len([s for s in prims.sites if s["verdict"] != "raises"])
        run.extra.setdefault("primitive_sites", {})[pc.name] = {
            "total": len(prims.sites), "disarmed_or_caught_locally": n_ok}
        for i in range(n_ok):
            pass
    # json.loads in handle
    ctx0 = None
    prims0 = _HandlePrims()
    E0 = ExcAnalysis(A, prim_hook=prims0)
    g = A.cfg(handler, None)
    loads = find_calls(A, handler, "loads")
    run.require(len(loads) == 1, "handle: json.loads call vanished")
    from .c11 import _parents, catching_handler
    par = _parents(handler.node)
    def answered(exc, node, depth=0):
        """Is `exc` raised at `node` finally answered by `response = format_error()`
        with no further raise?  Follows handlers that re-raise another class."""
        if depth > 4:
            return False
        tr, h = catching_handler(E0, par, node, handler, None, exc)
        if h is None:
            return False
        raises = [x for x in ast.walk(h) if isinstance(x, ast.Raise)]
        if not raises:
            return any(isinstance(x, ast.Assign) and any(norm(t) == "response" for t in x.targets)
                       and isinstance(x.value, ast.Call) and call_name(x.value) == "format_error"
                       for x in ast.walk(h))
        if len(raises) == 1 and isinstance(h.body[-1], ast.Raise) and raises[0].exc is not None:
            names = E0.class_names_of(raises[0].exc, handler, None)
            return bool(names) and all(answered(nm, tr, depth + 1) for nm in names)
        return False
    for exc, why in (("JSONDecodeError", "malformed JSON"),
                     ("ValueError", "integer literal longer than the interpreter's digit limit (4300)"),
                     ("RecursionError", "document nested deeper than the recursion limit")):
        ok = answered(exc, loads[0])
        run.check("R3", ok, f"json.loads {exc} answered with the format error",
                  key=f"comm.server._RequestHandler.handle|json.loads(data)|{exc}", where=handler.loc(loads[0]),
                  message=f"json.loads raises {exc} for a request line with {why}; in handle it is not "
                          "answered by the format-error reply: the client gets `{}` and the manager shuts down")
    # census obligations: count disarmed sites as discharged obligations
    for k, s in sorted(census.items()):
        if s["verdict"] != "raises":
            run.ok("R3", f"{s['primitive']} at {s['function']}:{s['line']} `{s['expr']}` {s['verdict']} {s['detail']}",
                   f"{s['function']}:{s['line']}")
    run.floor("R3", "tier-2 primitive sites on client data", len(census), 25)
    run.extra["primitive_census"] = [v for k, v in sorted(census.items())][:120]
    used = set()
    # unused justification entries are stale
    all_keys = {(j["function"], j["expression"], j["exception"]) for j in justified}
    run.extra["justified_entries"] = len(all_keys)


def _has_client_input(ctx, fn):
    f = fn
    while f is not None:
        env = ctx.O.env.get(f.qualname, {})
        ps = Origins._params(f) if not isinstance(f.node, ast.Lambda) else [a.arg for a in f.node.args.args]
        for p in ps:
            if any(is_client(o) for o in env.get(p, ())):
                return True
        f = f.parent
    return False


class _HandlePrims:
    def __call__(self, n, fn, sc, exc):
        return []


def _shutdown_roads(run):
    P, A = run.P, run.A
    run.rule("R4", "server.shutdown() is reachable only from the RequestHandlerError / "
             "RequestHandlerShutdown handlers of _TCPServerRequestHandler.handle, and those classes "
             "are raised only inside handlers of _RequestHandler.handle.")
    E = ExcAnalysis(A)
    th = P.func("comm.server._TCPServerRequestHandler.handle")
    sd = P.func("comm.server._TCPServerRequestHandler.shutdown")
    sites = [(f, c, h) for f, c, h in A.call_sites_of(lambda c: c.fn is sd)
             if isinstance(c.func, ast.Attribute) and norm(c.func.value) == "self"]
    run.floor("R4", "shutdown() call sites", len(sites), 2)
    # the server object's own shutdown() (socketserver) is called only by _do_shutdown
    raw = [(fn, n) for fn in P.all_functions for n in A.own_nodes(fn)
           if isinstance(n, ast.Call) and call_name(n) == "shutdown" and norm(n.func.value).endswith("server")]
    for fn, n in raw:
        run.check("R4", fn.name == "_do_shutdown", "server.shutdown() only in _do_shutdown",
                  key=f"{fn.qualname}|server.shutdown()|site", where=fn.loc(n),
                  message=f"{fn.qualname} shuts the server down directly")
    from .c11 import _parents
    for fn, call, _ in sites:
        ok = False
        if fn is th:
            par = _parents(fn.node)
            cur = call
            while id(cur) in par:
                cur = par[id(cur)]
                if isinstance(cur, ast.ExceptHandler):
                    ok = set(E.class_names_of(cur.type, fn, None)) <= {"RequestHandlerError", "RequestHandlerShutdown"}
                    break
        run.check("R4", ok, "shutdown() only under RequestHandlerError/Shutdown handlers",
                  key=f"{fn.qualname}|shutdown()|site", where=fn.loc(call),
                  message=f"{fn.qualname} calls shutdown() outside the two fatal-error handlers")
    for cname in ("RequestHandlerError", "RequestHandlerShutdown"):
        for fn in P.all_functions:
            for n in A.own_nodes(fn):
                if isinstance(n, ast.Raise) and n.exc is not None and cname in E.class_names_of(n.exc, fn, None):
                    par = _parents(fn.node)
                    cur = n
                    inh = False
                    while id(cur) in par:
                        cur = par[id(cur)]
                        if isinstance(cur, ast.ExceptHandler):
                            inh = True
                    run.check("R4", fn.qualname == "comm.server._RequestHandler.handle" and inh,
                              f"{cname} raised only in handle's handlers",
                              key=f"{fn.qualname}|raise {cname}|site", where=fn.loc(n),
                              message=f"{cname} (stops the manager) is raised in {fn.qualname} outside "
                                      "the request handler's fatal-error handlers")
