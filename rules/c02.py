"""C02 - requests are classified exactly as the protocol documents prescribe."""
import ast
import json
import os
import re
from sa.model import AnalysisError, Unknown, norm, unwrap
from sa.query import Facts, call_name, find_calls, try_fold, calls_in, defs_of
from sa.atoms import AtomExtractor, PathEnv, Atom
from .c06 import _strip
from sa.prov import Prov
from .common import (protocol_classes, device_touching, command_methods, doc)
from .c04 import value_set, doc_codes

TECHNIQUE = ("normalised-atom extraction from validator CFGs (short-circuit decomposition, helper "
             "predicate summaries) compared in both directions with a request specification written "
             "from the protocol documents; dominance rules for the gate, the dispatch and the "
             "second-stage checks; reachability of device effects from rejecting code")
EXPLANATION = (
    "Static analysis of /repo's current source (nothing executed). Decides, for both protocol "
    "classes: the gate's (guard -> code) pairs equal the documented generic verdicts; for every "
    "command the set of accepted request forms, as sets of normalised atoms over request paths "
    "(presence, exact type, length, hex-ness, literal, range, BIP32 grammar), equals the "
    "specification in spec/requests.json in both directions, and each failing atom leads to the "
    "code of its field group; the dispatch is dominated by a non-negative validation result of the "
    "same request; in _sign the device calls are dominated by the second-stage checks and by the "
    "completed transaction decoding; validators and the gate cannot reach any device exchange; both "
    "a path element denotes int(s) or 2^31 + int(s) (quoted), is accepted iff decimal and below 2^31 and rejected for nothing else (decision table of BIP32Element), the elements of a path are the pieces of its text as they are; "
    "mapping tables cover exactly the documented commands with implemented methods. Does not "
    "decide the json module's parsing nor predicate forms outside the atom normaliser (those end "
    "the run with ANALYSIS-ERROR, not with a verdict)."
)

SPEC = os.path.join(os.path.dirname(os.path.dirname(os.path.abspath(__file__))), "spec",
                    "requests.json")


def run(run):
    P, A = run.P, run.A
    F = Facts(A)
    X = AtomExtractor(A)
    with open(SPEC) as f:
        spec = json.load(f)
    dev = device_touching(run)
    docs = doc_codes(run)

    for pc in protocol_classes(run):
        ver = P.class_const(pc, "VERSION")
        vk = f"v{ver}"
        maps = command_methods(run, pc)
        _gate(run, F, X, pc, vk, spec)
        _validators(run, F, X, pc, vk, spec, maps)
        _exhaustive(run, pc, ver, maps, docs)
        _no_device(run, pc, maps, dev)
    _dispatch(run, F)
    _wire_format(run)
    _second_stage(run, F, X, dev)
    _bip32(run, F)
    bip32_element_table(run)


# ---------------------------------------------------------------------------
def _gate(run, F, X, pc, vk, spec):
    P, A = run.P, run.A
    run.rule("R1", "Gate (__internal_handle_request), per protocol class: the set of (guarding atoms -> "
             "returned code) pairs equals: not a dict -> format error; no `command` -> invalid request; "
             "command != 'version' and no `version` -> invalid request; `version` present and != VERSION "
             "-> wrong version; command not a string or not a known command -> command unknown; "
             "validation result < 0 -> that result.")
    gate = P.func("comm.protocol.HSM2Protocol.__internal_handle_request")
    g = A.cfg(gate, pc)
    env = PathEnv(A, gate, {gate.params[1]: ()}, pc)
    gen = spec["generic"][vk]
    version = spec["version"][vk]
    found = set()
    ret_nodes = {}
    from sa.decide import Walker
    from sa.query import make_facts
    # one entry per path to a return of the gate: the atoms of the path's branch conditions (so that `a or (b and c)` guarding one return and
    # separate guard clauses give the same entries), the conditions that are not atoms, the verdict's code
    for lf in Walker(A, gate, pc, lambda e: None, max_leaves=400, max_steps=20000).walk(g.entry):
        if lf.kind != "return":
            continue
        r = lf.node.ast
        v = r.value
        code = None
        if isinstance(v, ast.Call):
            cs = [c.fn for c in A.resolve_call(v, gate, pc) if c.fn is not None]
            if len(cs) == 1:
                rets = [x for x in A.own_nodes(cs[0]) if isinstance(x, ast.Return)]
                if len(rets) == 1 and isinstance(rets[0].value, ast.Dict) and len(rets[0].value.values) == 1:
                    ok, code = try_fold(P, rets[0].value.values[0], cs[0], pc)
        atoms = set()
        raw = []
        for k_, truth in lf.pc.items():
            if not k_.startswith("?"):
                continue
            try:
                ce = ast.parse(k_[1:], mode="eval").body
            except SyntaxError:
                raw.append(k_[1:])
                continue
            for f in make_facts("T" if truth else "F", ce, gate, None):
                a = X.atoms_of_fact(f, env)
                if a:
                    atoms |= set(a)
                else:
                    raw.append(f.text())
        found.add((frozenset(a.text() for a in atoms), tuple(sorted(raw)), code, norm(v)[:40] if v is not None else "None", id(r)))
        ret_nodes[id(r)] = lf.node
    # what holds on EVERY path to a given return (its dominating conditions): the part of a path's conditions that is a condition of the verdict
    must_atoms, must_raw = {}, {}
    for x in found:
        must_atoms[x[4]] = must_atoms[x[4]] & set(x[0]) if x[4] in must_atoms else set(x[0])
        must_raw[x[4]] = must_raw[x[4]] & set(x[1]) if x[4] in must_raw else set(x[1])
    # expected pairs, minimal guard that must be present
    expect = [
        ("nottype(<request>: dict)", None, gen["format"], "not a JSON object"),
        ("absent(command)", None, gen["invalid_request"], "no command"),
        ("absent(version)", "ne(command: version)", gen["invalid_request"], "no version"),
        ("present(version)", f"ne(version: {version})", gen["wrong_version"], "wrong version"),
    ]
    allowed = {
        "not a JSON object": {"nottype(<request>: dict)"},
        "no command": {"type(<request>: dict)", "absent(command)"},
        "no version": {"type(<request>: dict)", "present(command)", "ne(command: version)", "absent(version)"},
        "wrong version": {"type(<request>: dict)", "present(command)", "present(version)", f"ne(version: {version})"},
    }
    for a1, a2, code, what in expect:
        hit = [x for x in found if x[2] == code and a1 in x[0] and (a2 is None or a2 in x[0])]
        run.check("R1", bool(hit), f"{pc.name}: {what} -> {code}",
                  key=f"{pc.name}|gate|{what}", where=gate.loc(),
                  message=f"[{pc.name}] the gate has no return of {code} guarded by {a1}"
                          f"{' and ' + a2 if a2 else ''} ({what})")
        # ... and by nothing more: a further condition on that verdict exempts some requests from it
        for x in hit:
            extra = sorted(must_atoms[x[4]] - allowed[what]) + sorted(must_raw[x[4]])
            run.check("R1", not extra, f"{pc.name}: {what} -> {code} under no further condition", key=f"{pc.name}|gate|{what}|extra-condition",
                      where=gate.loc(), message=f"[{pc.name}] the `{what}` verdict ({code}) is additionally conditioned on {extra}: requests failing that extra "
                      "condition escape the verdict the specification prescribes for them")
    # unknown command: guarded by `command not in self._known_commands`, and a non-string
    # command must be classified too (it cannot be hashed)
    unk = [x for x in found if x[2] == gen["unknown_command"]]
    run.check("R1", bool(unk), f"{pc.name}: unknown command -> {gen['unknown_command']}",
              key=f"{pc.name}|gate|unknown command", where=gate.loc(),
              message=f"[{pc.name}] the gate never returns the unknown-command code")
    conds = [n for n in g.nodes if n.kind == "cond" and isinstance(n.ast, ast.Compare) and len(n.ast.ops) == 1
             and isinstance(n.ast.ops[0], (ast.NotIn, ast.In)) and "_known_commands" in norm(n.ast.comparators[0])]
    run.require(len(conds) == 1, "gate: the `command not in self._known_commands` test vanished")
    kc = conds[0]
    facts_at_kc = []
    for f in F.local(gate, pc, kc):
        a = X.atoms_of_fact(f, env)
        if a:
            facts_at_kc += [x.text() for x in a]
    run.check("R1", "type(command: str)" in facts_at_kc,
              f"{pc.name}: the known-command lookup is reached only with a string command",
              key=f"{pc.name}|gate|command-type", where=gate.loc(kc.ast),
              message=f"[{pc.name}] `command not in self._known_commands` is evaluated for any JSON value "
                      "of `command`: a list/object has no verdict at all (TypeError: unhashable)")
    # nothing else: every other return is the validator's negative result or the operation's result
    others = [x for x in found if x[2] not in (gen["format"], gen["invalid_request"], gen["wrong_version"],
                                               gen["unknown_command"])]
    vcalls = [y for n_ in A.own_nodes(gate) if isinstance(n_, ast.Call) and isinstance(n_.func, ast.Subscript) and norm(n_.func.value) == "self._validation_mappings"
              for y in g.nodes_of(n_)]
    run.require(len(vcalls) >= 1, "gate: the validation call self._validation_mappings[command](request) was not identified")
    for x in others:
        # whatever is returned once the command's validator ran is the validator's or the operation's verdict (assembled as rule A.R8 says)
        rn_ = ret_nodes.get(x[4])
        ok = rn_ is not None and any(g.dominates(vc, rn_) for vc in vcalls)
        run.check("R1", ok, f"{pc.name}: gate return `{x[3]}` is a validator/operation result",
                  key=f"{pc.name}|gate|extra-return:{x[3]}", where=gate.loc(),
                  message=f"[{pc.name}] the gate has an undocumented verdict `{x[3]}` (code {x[2]})")
    # generic codes are documented
    run.extra.setdefault("gate_pairs", {})[pc.name] = len(found)
    hh = P.method(P.cls("comm.server._RequestHandler"), "handle")
    rl = find_calls(A, hh, "readline")
    run.check("R1", len(rl) == 1 and not rl[0].args and not rl[0].keywords, "the request line is read whole (readline() without a size limit)",
              key="_RequestHandler.handle|readline-limit", where=hh.loc(),
              message=f"the request is read with {[norm(c)[:40] for c in rl]}: a size limit truncates long valid requests (e.g. updateAncestorBlock with many "
                      "blocks), which are then answered with the format-error code instead of their own verdict")


def _wire_format(run):
    """The request handed to the protocol is json.loads of the line decoded as UTF-8 text (a str): given bytes json.loads would sniff
    UTF-8-BOM / UTF-16 / UTF-32 and accept documents the wire format does not allow."""
    P, A = run.P, run.A
    RH = P.cls("comm.server._RequestHandler")
    hh = P.method(RH, "handle")
    g = A.cfg(hh, RH)
    PVh = Prov(A)
    jl = [c for c in find_calls(A, hh, "loads") if norm(c.func) == "json.loads"]
    run.floor("R1", "json.loads sites in the request handler", len(jl), 1)
    enc = P.class_const(RH, "ENCODING")
    run.check("R1", enc == "utf-8", "wire encoding is UTF-8", key="_RequestHandler.ENCODING", where=hh.loc(), message=f"_RequestHandler.ENCODING is {enc!r}")
    rfile = hh.params[2] if len(hh.params) > 2 else "rfile"
    for c in jl:
        for cn in g.nodes_of(c):
            got = {_strip(x) for x in PVh.expand_consistent(hh, RH, c.args[0], cn)} if c.args else set()
            want = {_strip(f"{rfile}.readline().strip().decode(self.ENCODING)"), _strip(f"{rfile}.readline().decode(self.ENCODING).strip()")}
            run.check("R1", bool(got) and got <= want and not c.keywords and len(c.args) == 1, "the document parsed is the request line decoded as UTF-8 text",
                      key="_RequestHandler.handle|json-source", where=hh.loc(c),
                      message=f"json.loads is given {sorted(got)[:1]}, not the line decoded with the wire encoding: raw bytes make json.loads sniff the encoding "
                              "(BOM, UTF-16/32 accepted), other sources are not the client's request")
    dp = [c for c in find_calls(A, hh, "handle_request")]
    for c in dp:
        for cn in g.nodes_of(c):
            got = {_strip(x) for x in PVh.expand_consistent(hh, RH, c.args[0], cn, stop=("data", "line"))} if c.args else set()
            got = got - {"None"} if len(got) > 1 else got      # the never-taken default of an inlined parsing helper whose other paths raise
            run.check("R1", bool(got) and all(x.startswith("json.loads(") for x in got), "the protocol receives the parsed document itself",
                      key="_RequestHandler.handle|dispatch-source", where=hh.loc(c),
                      message=f"handle_request is given {sorted(got)[:1]}, not the parsed request")


def _atom_fail_codes(run, X, F, fn, pc, env):
    """{atom text: set of negative codes reachable when the atom's condition fails}
    for the atoms established by fn's own conditions."""
    P, A = run.P, run.A
    g = A.cfg(fn, pc)
    out = {}
    for n in g.nodes:
        if n.kind not in ("T", "F") or n.cond is None or n.cond.kind != "cond":
            continue
        from sa.query import make_facts
        atoms = []
        for f in make_facts(n.kind, n.ast, fn, n.cond):
            a = X.atoms_of_fact(f, env)
            if a:
                atoms += a
        if not atoms:
            continue
        opp = [m for m in g.nodes if m.kind in ("T", "F") and m.cond is n.cond and m is not n]
        codes = set()
        for o in opp:
            for x in g.reachable(o):
                if x.kind == "stmt" and isinstance(x.ast, ast.Return) and x.ast.value is not None:
                    try:
                        vs = value_set(run, x.ast.value, fn, pc)
                    except AnalysisError:
                        vs = set()
                    codes |= {v for v in vs if v < 0}
        for a in atoms:
            if a.kind in ("param",):
                continue
            out.setdefault(a.text(), set()).update(codes)
    return out


def _validators(run, F, X, pc, vk, spec, maps):
    P, A = run.P, run.A
    run.rule("R2", "For each (mode, command): the set of accepted request forms - each the set of "
             "normalised atoms dominating a non-negative return of the validator, sub-validators "
             "included - equals spec/requests.json (missing atom = dropped check, extra atom = "
             "tightened check, both reported); every negative code the validator can return is the "
             "spec's; each atom's failure edge leads to the code of its field group.")
    cs = spec["commands"][vk]
    groups = spec["group_codes"][vk]
    n_atoms = 0
    seen_validators = {}
    for cmd, v in sorted(maps["_validation_mappings"].items()):
        run.require(cmd in cs, f"spec/requests.json has no entry for {vk} `{cmd}`")
        if v is None:
            raise AnalysisError(f"{pc.name}: validator of `{cmd}` not resolvable")
        exits = X.validator_exits(v, pc)
        for code, atoms, r, undec in exits:
            if code >= 0 and undec:
                raise AnalysisError(f"{v.qualname}: condition(s) outside the atom normaliser on an accepting "
                                    f"path: {[u.text() for u in undec]} (UNDECIDED)")
        got = {frozenset(a.text() for a in atoms) for code, atoms, r, u in exits if code >= 0}
        want = {frozenset(f) for f in cs[cmd]["accepted_forms"]}
        n_atoms += sum(len(f) for f in got)
        if got == want:
            run.ok("R2", f"{vk} {cmd}: {len(got)} accepted form(s) equal the specification", v.loc())
        else:
            # explain: pair each got form with the closest wanted form
            for gf in sorted(got - want, key=sorted):
                best = min(want, key=lambda w: len(w ^ gf)) if want else frozenset()
                missing = sorted(best - gf)
                extra = sorted(gf - best)
                run.fail("R2", f"{vk}|{cmd}|form|missing:{missing}|extra:{extra}", v.loc(),
                         f"[{pc.name}] `{cmd}`: an accepted request form differs from the specification: "
                         f"checks dropped {missing}; checks added/tightened {extra}")
            for wf in sorted(want - got, key=sorted):
                if got and min(len(wf ^ gf) for gf in got) == 0:
                    continue
                if not any((gf - min(want, key=lambda w: len(w ^ gf))) or (min(want, key=lambda w: len(w ^ gf)) - gf)
                           for gf in got - want):
                    run.fail("R2", f"{vk}|{cmd}|form-not-accepted:{sorted(wf)[:4]}", v.loc(),
                             f"[{pc.name}] `{cmd}`: a request form the specification accepts is never accepted: "
                             f"{sorted(wf)}")
        neg = {code for code, atoms, r, u in exits if code < 0}
        run.check("R2", neg == set(cs[cmd]["error_codes"]), f"{vk} {cmd}: validation codes {sorted(neg)}",
                  key=f"{vk}|{cmd}|validation-codes", where=v.loc(),
                  message=f"[{pc.name}] `{cmd}` validation can return {sorted(neg)}, specification says "
                          f"{sorted(cs[cmd]['error_codes'])}")
        # collect validator functions involved for the per-atom code check
        todo = [v]
        while todo:
            f = todo.pop()
            if f.qualname in seen_validators or isinstance(f.node, ast.Lambda):
                continue
            seen_validators[f.qualname] = f
            for call, cc in A.callees(f, pc):
                for c in cc:
                    if c.fn is not None and c.fn.cls is not None and c.fn.name.startswith("_validate"):
                        todo.append(c.fn)
    run.floor("R2", "atoms compared", n_atoms, 30 if vk == "v5" else 8)
    positive = {a for c_ in cs.values() for form in c_["accepted_forms"] for a in form}
    for q, f in sorted(seen_validators.items()):
        ps = f.params
        env = PathEnv(A, f, {ps[1]: ()} if len(ps) > 1 else {}, pc)
        fc = _atom_fail_codes(run, X, F, f, pc, env)
        for atext, codes in sorted(fc.items()):
            m = re.match(r"\w+\(([\w<>]+)", atext)
            grp = m.group(1) if m else None
            if grp not in groups or atext not in positive:
                continue
            run.check("R2", codes == {groups[grp]}, f"{vk} {f.name}: failing {atext} -> {groups[grp]}",
                      key=f"{vk}|{f.name}|{atext}|fail-code", where=f.loc(),
                      message=f"[{pc.name}] in {f.name} a request failing `{atext}` is answered "
                              f"{sorted(codes)}; the documents prescribe {groups[grp]} for the `{grp}` field")


def _exhaustive(run, pc, ver, maps, docs):
    run.rule("R5", "Both mapping tables have exactly the documented command set of their mode and every "
             "operation entry resolves (through the MRO of the concrete class) to an implemented method.")
    cmds, generic, _ = docs[ver]
    for tbl in ("_mappings", "_validation_mappings"):
        got = set(maps[tbl])
        run.check("R5", got == set(cmds), f"{pc.name}.{tbl} covers the documented commands",
                  key=f"{pc.name}|{tbl}|commands", where=pc.module.relpath,
                  message=f"{pc.name}.{tbl} has {sorted(got)}; documented: {sorted(cmds)}")
    nr = run.A.noreturn_set()
    for cmd, m in sorted(maps["_mappings"].items()):
        run.check("R5", m.qualname not in nr, f"{pc.name}: `{cmd}` is implemented",
                  key=f"{pc.name}|{cmd}|stub", where=m.loc(),
                  message=f"{pc.name}: `{cmd}` resolves to {m.qualname}, which only raises (not implemented): "
                          "the client gets `{}`")
    # the gate's notion of a known command must coincide with what can be dispatched
    im = run.P.method(pc, "_init_mappings")
    ok = maps["_known_is_live_view"] or (maps["_known"] == set(maps["_mappings"]) and maps["_known"])
    run.check("R5", bool(ok), f"{pc.name}: _known_commands is the key set of this class's final _mappings",
              key=f"{pc.name}|_known_commands|source", where=im.loc(),
              message=f"{pc.name}: _known_commands is {maps['_known_src']} and does not follow the final "
                      "_mappings table: the gate would treat commands as known that cannot be dispatched "
                      "(KeyError -> no verdict, manager stops) or reject dispatchable ones")


def _no_device(run, pc, maps, dev):
    P, A = run.P, run.A
    run.rule("R4", "(a) validators and the gate's helpers cannot reach a device exchange; (b) the dispatch "
             "call is dominated by `validation_result >= 0` for the same command and request; (c) in "
             "_sign, ensure_connection and every dongle call are dominated by the success of both "
             "second-stage checks and by the normal completion of get_unsigned_tx.")
    gate = P.func("comm.protocol.HSM2Protocol.__internal_handle_request")
    for cmd, v in sorted(maps["_validation_mappings"].items()):
        if v is None:
            continue
        reach = A.reachable_functions([(v, pc)])
        bad = [f.qualname for f, sc in reach if f.qualname in dev]
        run.check("R4", not bad, f"{pc.name}: validator of `{cmd}` cannot touch the device",
                  key=f"{pc.name}|{cmd}|validator-touches-device", where=v.loc(),
                  message=f"[{pc.name}] the validator of `{cmd}` can reach a device exchange through {bad[:3]}: "
                          "a request that is then rejected would already have contacted the device")
    for hname in ("format_error", "_invalid_request", "_wrong_version", "_command_unknown"):
        h = P.method(pc, hname)
        reach = A.reachable_functions([(h, pc)])
        bad = [f.qualname for f, sc in reach if f.qualname in dev]
        run.check("R4", not bad, f"{pc.name}.{hname} cannot touch the device",
                  key=f"{pc.name}|{hname}|touches-device", where=h.loc(),
                  message=f"{pc.name}.{hname} can reach a device exchange")


def _dispatch(run, F):
    P, A = run.P, run.A
    gate = P.func("comm.protocol.HSM2Protocol.__internal_handle_request")
    for pc in protocol_classes(run):
        g = A.cfg(gate, pc)
        PVg = Prov(A)

        def table_of(call):
            """(table text, key text) when the called function is an entry of a dispatch table (directly, or held in a local / read with .get)"""
            for cn in g.nodes_of(call):
                for x in PVg.expand_consistent(gate, pc, call.func, cn, stop=("command", "request")):
                    try:
                        e = ast.parse(x, mode="eval").body
                    except SyntaxError:
                        continue
                    if isinstance(e, ast.Subscript):
                        return norm(e.value), norm(e.slice)
                    if isinstance(e, ast.Call) and isinstance(e.func, ast.Attribute) and e.func.attr == "get" and e.args:
                        return norm(e.func.value), norm(e.args[0])
            return None, None
        calls_ = [n for n in A.own_nodes(gate) if isinstance(n, ast.Call) and not isinstance(n.func, ast.Attribute) or
                  (isinstance(n, ast.Call) and isinstance(n.func, ast.Subscript))]
        disp = [n for n in calls_ if table_of(n)[0] == "self._mappings"]
        vals = [n for n in calls_ if table_of(n)[0] == "self._validation_mappings"]
        run.require(len(disp) == 1 and len(vals) == 1, "gate: dispatch / validation call not found")
        d, v = disp[0], vals[0]
        same = table_of(d)[1] == table_of(v)[1] and [norm(a) for a in d.args] == [norm(a) for a in v.args]
        run.check("R4", same, f"{pc.name}: dispatch and validation use the same command and request",
                  key=f"{pc.name}|gate|dispatch-same-args", where=gate.loc(d),
                  message="the dispatch call does not use the command/request that was validated")
        for dn in g.nodes_of(d):
            facts = F.local(gate, pc, dn)
            okv = False
            for f in facts:
                if f.kind == "cmp" and f.op == ">=" and isinstance(f.left, ast.Name):
                    ok, k = try_fold(P, f.right, gate, pc)
                    ds = defs_of(A, gate, f.left.id)
                    if ok and k == 0 and len(ds) == 1 and ds[0].value is v:
                        okv = True
            run.check("R4", okv, f"{pc.name}: dispatch dominated by validation_result >= 0",
                      key=f"{pc.name}|gate|dispatch-after-validation", where=gate.loc(d),
                      message="the operation can be dispatched although validation returned a negative code "
                              "(or was not run): a rejected request would reach the device")
            # no device-touching call before the dispatch in the gate
        # everything before dispatch in the gate is device-free: covered by (a) for the callees


def _second_stage(run, F, X, dev):
    P, A = run.P, run.A
    run.rule("R3", "Acceptance implies the specification's facts where they are used: at the "
             "sign_unauthorized call the request has a 32-byte hex `message.hash` (v1: `message`); at the "
             "sign_authorized call it has the full auth object and a legacy or segwit tx message "
             "(second-stage _validate_auth(mandatory=True) / _validate_message(what='tx') both passed).")
    V2 = P.cls("ledger.protocol.HSM2ProtocolLedger")
    sg = P.method(V2, "_sign")
    g = A.cfg(sg, V2)
    env = PathEnv(A, sg, {sg.params[1]: ()}, V2)

    def atoms_at(call):
        out = set()
        for cn in g.nodes_of(call):
            for f in F.local(sg, V2, cn):
                a = X.atoms_of_fact(f, env)
                if a:
                    out |= {x.text() for x in a}
            for oks in X.ok_facts_of_completed(sg, V2, cn, env):
                if oks:
                    inter = set(a.text() for a in oks[0])
                    for o in oks[1:]:
                        inter &= set(a.text() for a in o)
                    out |= inter
        return out
    ua = find_calls(A, sg, "sign_unauthorized")
    au = find_calls(A, sg, "sign_authorized")
    run.require(len(ua) == 1 and len(au) == 1, "_sign: sign_authorized / sign_unauthorized call sites changed")
    at = atoms_at(ua[0])
    need = {"present(message.hash)", "hex(message.hash)", "hexlen(message.hash: 32)", "len(message: ==,1)"}
    run.check("R3", need <= at, "sign_unauthorized called only with a validated hash message",
              key="HSM2ProtocolLedger._sign|sign_unauthorized|facts", where=sg.loc(ua[0]),
              message=f"at the sign_unauthorized call the facts {sorted(need - at)} are not established "
                      "(second-stage _validate_message(what='hash') missing or not checked)")
    at = atoms_at(au[0])
    need = {"present(auth)", "type(auth: dict)", "present(auth.receipt)", "hex(auth.receipt)",
            "present(auth.receipt_merkle_proof)", "type(auth.receipt_merkle_proof: list)",
            "hex(auth.receipt_merkle_proof.*)", "present(message.tx)", "hex(message.tx)",
            "present(message.input)", "type(message.input: int)", "present(message.sighashComputationMode)"}
    run.check("R3", need <= at, "sign_authorized called only with mandatory auth and a tx message",
              key="HSM2ProtocolLedger._sign|sign_authorized|facts", where=sg.loc(au[0]),
              message=f"at the sign_authorized call the facts {sorted(need - at)} are not established: the "
                      "second-stage checks (_validate_auth(mandatory=True), _validate_message(what='tx')) "
                      "are missing, weakened or their result is ignored")
    # (c) device calls after second stage + tx decoding
    gut = find_calls(A, sg, "get_unsigned_tx")
    run.require(len(gut) == 1, "_sign: get_unsigned_tx call vanished")
    V2m = P.method(V2, "ensure_connection")
    # the verdict variables by role: the locals that receive the result of _validate_message(..) / _validate_auth(..)

    def verdict_vars(callee):
        return {t.id for n_ in A.own_nodes(sg) if isinstance(n_, ast.Assign) and isinstance(n_.value, ast.Call) and call_name(n_.value) == callee
                for t in n_.targets if isinstance(t, ast.Name)}
    msg_vars, auth_vars = verdict_vars("_validate_message"), verdict_vars("_validate_auth")
    for call, cs in A.callees(sg, V2):
        touches = any(c.fn is not None and (c.fn.qualname in dev or c.fn is V2m) for c in cs)
        if not touches:
            continue
        for cn in g.nodes_of(call):
            facts = F.local(sg, V2, cn)
            has_msg = any(f.kind == "cmp" and f.op == ">=" and norm(f.left) in msg_vars for f in facts)
            run.check("R4", has_msg, f"_sign: `{norm(call.func)}` after the message check",
                      key=f"HSM2ProtocolLedger._sign|{norm(call.func)}|before-message-check", where=sg.loc(call),
                      message=f"in _sign the device-touching call `{norm(call)[:50]}` is not dominated by a "
                              "passed second-stage message validation: a request answered -102 could already "
                              "have caused a device exchange (reconnection included)")
            # on the authorized branch also auth check and decode
            hashed = any(f.kind == "cmp" and f.op == "in" and "hash" in norm(f.left) for f in facts)
            if not hashed:
                has_auth = any(f.kind == "cmp" and f.op == ">=" and norm(f.left) in auth_vars for f in facts)
                dec = any(g.dominates(x, cn) for x in g.nodes_of(gut[0]))
                run.check("R4", has_auth and dec, f"_sign: `{norm(call.func)}` after auth check and tx decoding",
                          key=f"HSM2ProtocolLedger._sign|{norm(call.func)}|before-auth-or-decode", where=sg.loc(call),
                          message=f"in _sign (authorized branch) `{norm(call)[:50]}` is not dominated by the "
                                  "mandatory-auth check and the completed get_unsigned_tx(): a request answered "
                                  "-101/-102 could already have contacted the device")
    # v1
    V1 = P.cls("ledger.protocol_v1.HSM1ProtocolLedger")
    # the v1 validator establishes message as 32-byte hex: covered by R2


def bip32_element_table(run, rid="R2c"):
    """The index a path element denotes, as a decision table of BIP32Element.__init__ (shared with C01 under a prefix)."""
    P, A = run.P, run.A
    from sa.decide import Walker, cmp_parts, subst
    from sa.canon import fold_consts, canon_sums
    run.rule(rid, "Key path element: BIP32Element(spec) stores int(s) for a plain element and 2^31 + int(s) for one with a trailing quote, s being the element without "
             "that quote; it completes only when str.isdecimal(s) holds and int(s) < 2^31; with those it always completes (no further condition can reject: any other "
             "test is decided over the interval of the stored value); every rejection has one of these reasons or the type / non-empty test.")
    BE = P.cls("comm.bip32.BIP32Element")
    ei = P.method(BE, "__init__")
    g = A.cfg(ei, BE)
    sp = ei.params[1]
    locs_e = set(Prov(A).defs(ei, BE)) | set(ei.params)
    state = {"W": None}
    H31 = 1 << 31

    def resolve(e):
        b = state["W"]._bind or {}
        for _ in range(6):
            names = {n.id for n in ast.walk(e) if isinstance(n, ast.Name)}
            hit = {k: v for k, v in b.items() if k in names}
            if not hit:
                break
            e = subst(e, hit)
        return e

    def canon(e):
        try:
            return _strip(canon_sums(norm(fold_consts(P, resolve(e), ei, BE, locals_=locs_e))))
        except (AnalysisError, Unknown):
            return _strip(norm(resolve(e)))
    S_PLAIN, S_HARD = sp, f"{sp}[:-1]"

    def value_form(t):
        """-> (base, string text) for `int(S)` / `K + int(S)`"""
        m = re.fullmatch(r"(?:(\d+) \+ )?int\((.+)\)(?: \+ (\d+))?", t)
        if not m or (m.group(1) and m.group(3)):
            return None
        return int(m.group(1) or m.group(3) or 0), m.group(2)

    def atom(e):
        cp = cmp_parts(e)
        if cp is not None:
            l, op, r = cp
            lt, rt = canon(l), canon(r)
            if lt == f"type({sp})" and rt == "str" and op in ("==", "!="):
                return ("STR", op == "==")
            if lt == f"len({sp})" and rt in ("0", "1") and (op, rt) in (("==", "0"), ("!=", "0"), (">", "0"), (">=", "1"), ("<", "1"), ("<=", "0")):
                return ("NONEMPTY", op in ("!=", ">", ">="))
            if lt == f"{sp}[-1]" and rt in ('"\'"', "'\\''") and op in ("==", "!="):
                return ("Q", op == "==")
            vf = value_form(lt)
            if vf is not None and re.fullmatch(r"-?\d+", rt) and op in ("<", "<=", ">", ">=", "==", "!="):
                base, s_ = vf
                k = int(rt)
                if base == 0 and (op, k) in ((">=", H31), (">", H31 - 1), ("<", H31), ("<=", H31 - 1)):
                    return (f"BIG {s_}", op in (">=", ">"))
                # any other test of the value: decided over what the value can be once the element is decimal and below 2^31
                lo, hi = base, base + H31 - 1
                import operator
                f = {"<": operator.lt, "<=": operator.le, ">": operator.gt, ">=": operator.ge, "==": operator.eq, "!=": operator.ne}[op]
                a_, b_ = f(lo, k), f(hi, k)
                mid = f(k if lo <= k <= hi else lo, k)
                if a_ == b_ == mid:
                    return (a_, True)
                return (f"RANGE {lt} {op} {k}", True)
        x = resolve(e)
        if isinstance(x, ast.Call) and call_name(x) == "isdecimal":
            arg = x.args[0] if (norm(x.func) == "str.isdecimal" and len(x.args) == 1) else (x.func.value if isinstance(x.func, ast.Attribute) and not x.args else None)
            if arg is not None:
                return (f"DEC {canon(arg)}", True)
        return None
    W = Walker(A, ei, BE, atom, max_leaves=512, max_steps=20000)
    state["W"] = W
    n_done = 0
    n_leaves = 0
    for lf in W.walk(g.entry):
        n_leaves += 1
        pc = lf.pc
        unknown = sorted(k[1:] for k in pc if isinstance(k, str) and k.startswith("?"))
        where = ei.loc(lf.node.ast) if lf.node.ast is not None else ei.loc()
        if lf.kind in ("exit", "return"):
            n_done += 1
            stores = [(st_, v_) for k_, st_, v_ in lf.effects if k_ == "assign" and any(norm(t_) == "self._index" for t_ in st_.targets)]
            run.check(rid, len(stores) == 1, "the element stores its index once", key="BIP32Element.__init__|stores", where=where,
                      message=f"BIP32Element.__init__ completes with {len(stores)} stores of self._index on a path")
            if len(stores) != 1:
                continue
            state["W"]._bind = lf.bind
            vt = canon(lf.deep(stores[0][0].value))
            vf = value_form(vt)
            q = pc.get("Q")
            want_s = S_HARD if q else S_PLAIN
            want_b = H31 if q else 0
            desc = f"trailing quote {'present' if q else 'absent'}"
            run.check(rid, q is not None and vf == (want_b, want_s), f"[{desc}] index = {want_b} + int({want_s})", key=f"BIP32Element.__init__|value|{bool(q)}", where=where,
                      message=f"BIP32Element.__init__, {desc}: the index stored is `{vt}`; the key path grammar gives {want_b} + int({want_s}) - the device would be "
                              "asked to sign with, or report the key of, another path than the one requested")
            need = [("STR", True, "the element is a str"), ("NONEMPTY", True, "it is not empty"), (f"DEC {want_s}", True, f"str.isdecimal({want_s})"),
                    (f"BIG {want_s}", False, f"int({want_s}) < 2^31")]
            for a_, pol, what in need:
                run.check(rid, pc.get(a_) is pol, f"[{desc}] completes only when {what}", key=f"BIP32Element.__init__|need|{bool(q)}|{a_.split()[0]}", where=where,
                          message=f"BIP32Element.__init__, {desc}: an element is accepted without `{what}` having been established on that path")
            extra = sorted(k for k in pc if k.startswith("RANGE ")) + unknown
            run.check(rid, not extra, f"[{desc}] nothing else decides", key=f"BIP32Element.__init__|extra|{bool(q)}|{';'.join(extra)[:50]}", where=where,
                      message=f"BIP32Element.__init__, {desc}: acceptance also depends on `{'`, `'.join(extra)[:120]}`: elements of the grammar would be rejected (or the "
                              "condition is not about the element at all)")
        elif lf.kind == "raise":
            q = pc.get("Q")
            s_ = S_HARD if q else S_PLAIN
            reasons = [pc.get("STR") is False, pc.get("NONEMPTY") is False, pc.get(f"DEC {s_}") is False, pc.get(f"BIG {s_}") is True]
            run.check(rid, any(reasons), "every rejection has a reason of the grammar", key=f"BIP32Element.__init__|reject|{bool(q)}|{';'.join(sorted(k for k, b in pc.items()))[:60]}",
                      where=where, message=f"BIP32Element.__init__ rejects an element on a path where it is a str, non-empty, decimal and below 2^31 (conditions met: "
                                           f"{sorted((k, b) for k, b in pc.items())[:6]}): a valid key id would be answered -103")
    run.floor(rid, "paths of BIP32Element.__init__", n_leaves, 5)
    run.floor(rid, "accepting paths of BIP32Element.__init__", n_done, 2)


def bip32_path_elements(run, rid="R2b"):
    """The elements of a path are the pieces of its text, as they are (shared with C01 under a prefix)."""
    P, A = run.P, run.A
    from sa.prov import Prov
    from sa.canon import canon_list_text
    BP = P.cls("comm.bip32.BIP32Path")
    ini = P.method(BP, "__init__")
    g = A.cfg(ini, BP)
    PVb = Prov(A)
    # the expansion below follows bindings; a list changed in place between its binding and its use is not what its binding says
    inplace = []
    for n in A.own_nodes(ini):
        if isinstance(n, (ast.Assign, ast.AugAssign)):
            for t in (n.targets if isinstance(n, ast.Assign) else [n.target]):
                if isinstance(t, ast.Subscript) and isinstance(t.value, ast.Name):
                    inplace.append(norm(n)[:50])
        if isinstance(n, ast.Call) and isinstance(n.func, ast.Attribute) and isinstance(n.func.value, ast.Name) and n.func.value.id != "self" \
                and n.func.attr in ("append", "insert", "sort", "reverse", "pop", "remove", "extend", "clear", "__setitem__"):
            inplace.append(norm(n)[:50])
    run.check(rid, not inplace, "the pieces of the path text are not modified before they are parsed", key="BIP32Path.__init__|in-place", where=ini.loc(),
              message=f"BIP32Path.__init__ changes a list in place ({inplace[:3]}): the elements parsed are no longer the '/'-separated pieces of the text as given "
                      "(e.g. a marker added to some of them: the device is asked for another path than the one requested)")
    # elements = one BIP32Element per '/'-separated piece of spec[2:], in order
    forms = set()
    for n in A.own_nodes(ini):
        if isinstance(n, ast.Assign) and norm(n.targets[0]) == "self._elements":
            for cn in g.nodes_of(n):
                for x in PVb.expand_consistent(ini, BP, n.value, cn, stop=("spec",)):
                    cl_ = canon_list_text(x)
                    forms.add(tuple(cl_) if cl_ is not None else ("?" + x,))
    run.check(rid, forms == {("map(BIP32Element(ELEM(spec[2:].split('/'))))",)},
              "elements parsed by BIP32Element from spec[2:].split('/')", key="BIP32Path.__init__|element-parse",
              where=ini.loc(), message=f"BIP32Path builds its elements as {sorted(forms)[:2]}: not one BIP32Element per '/'-separated element, in order")


def _bip32(run, F):
    P, A = run.P, run.A
    run.rule("R2b", "Key id grammar: BIP32Path(spec) completes only if spec is a non-empty str starting "
             "with 'm/', has exactly 5 '/'-separated elements (default nelements), each a non-empty "
             "decimal string with an optional trailing quote and value < 2^31.")
    BP = P.cls("comm.bip32.BIP32Path")
    BE = P.cls("comm.bip32.BIP32Element")
    ini = P.method(BP, "__init__")
    bip32_path_elements(run, "R2b")
    facts = [f.text() for f in F.exit_facts(ini, BP)]
    for want, what in (("type(spec) == str", "type str"), ("len(spec) != 0", "non-empty"),
                       (("spec[:2] == 'm/'", "spec.startswith('m/')"), "prefix m/")):
        alts = (want,) if isinstance(want, str) else want
        run.check("R2b", any(w in facts for w in alts), f"BIP32Path requires {what}", key=f"BIP32Path.__init__|{what}",
                  where=ini.loc(), message=f"BIP32Path.__init__ can complete without `{alts[0]}`")
    d = ini.node.args.defaults
    g = A.cfg(ini, BP)
    from sa.decide import Walker, cmp_parts, completions, subst
    nel = ini.params[2] if len(ini.params) > 2 else "nelements"
    stc = {"W": None}

    def cres(e):
        b = stc["W"]._bind or {}
        for _ in range(6):
            nm_ = {x.id for x in ast.walk(e) if isinstance(x, ast.Name)}
            hit = {k: v for k, v in b.items() if k in nm_}
            if not hit:
                break
            e = subst(e, hit)
        return e

    def catom(e):
        cp = cmp_parts(e)
        if cp is None:
            return None
        l, op, r = cp
        lt, rt = _strip(norm(cres(l))), _strip(norm(cres(r)))
        if lt == nel and rt == "None" and op in ("is", "is not", "==", "!="):
            return ("ANY_COUNT", op in ("is", "=="))
        if {lt, rt} == {"len(self._elements)", nel} and op in ("==", "!="):
            return ("COUNT_OK", op == "==")
        if (lt, rt) == ("len(list(map(BIP32Element, spec[2:].split('/'))))", nel) and op in ("==", "!="):
            return ("COUNT_OK", op == "==")
        return None
    okc = True
    ncount = 0
    Wc = Walker(A, ini, BP, catom, max_leaves=64)
    stc["W"] = Wc
    try:
        count_leaves = list(Wc.walk(g.entry))
    except AnalysisError as ex_:
        count_leaves = []
        run.note(f"BIP32Path.__init__: element-count table not decided ({ex_})")
    for lf in count_leaves:
        if not any(k in lf.pc for k in ("ANY_COUNT", "COUNT_OK")):
            continue
        for val in completions({k: b for k, b in lf.pc.items() if k in ("ANY_COUNT", "COUNT_OK")}, ["ANY_COUNT", "COUNT_OK"]):
            ncount += 1
            want_k = "raise" if (not val["ANY_COUNT"] and not val["COUNT_OK"]) else "exit"
            if lf.kind != want_k and not (want_k == "exit" and lf.kind == "return"):
                okc = False
    okc = okc and ncount >= 3
    run.check("R2b", okc and len(d) == 1 and isinstance(d[0], ast.Constant) and d[0].value == 5,
              "BIP32Path requires exactly nelements (default 5) elements",
              key="BIP32Path.__init__|element-count", where=ini.loc(),
              message="BIP32Path.__init__ does not enforce the 5-element path length "
                      "(count test missing, not raising, or default not 5)")
    V = P.method(P.cls("comm.protocol.HSM2Protocol"), "_validate_key_id")
    ctor = [c for c in find_calls(A, V, "BIP32Path")]
    run.check("R2b", len(ctor) == 1 and len(ctor[0].args) == 1 and not ctor[0].keywords,
              "validator builds BIP32Path with the default element count",
              key="_validate_key_id|BIP32Path-args", where=V.loc(),
              message="_validate_key_id passes an explicit element count to BIP32Path")
    ei = P.method(BE, "__init__")
    from sa.prov import Prov
    from sa.canon import fold_consts, canon_list_text
    PVb = Prov(A)
    locs_e = set(PVb.defs(ei, BE)) | set(ei.params)
    ef = set()
    for t in F.exit_texts(ei, BE, PVb):
        try:
            ef.add(_strip(norm(fold_consts(P, ast.parse(t, mode="eval").body, ei, BE, locals_=locs_e))))
        except SyntaxError:
            ef.add(t)
    for want, what in (("type(spec) == str", "type str"), ("len(spec) != 0", "non-empty")):      # decimal digits and the 2^31 bound: rule R2c
        run.check("R2b", want in ef, f"BIP32Element requires {what}", key=f"BIP32Element.__init__|{what}",
                  where=ei.loc(), message=f"BIP32Element.__init__ can complete without `{want}`")
