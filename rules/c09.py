"""C09 - bring-up never endangers the device and never serves from an unsafe
state.  Dominance rules over initialize_device / _handle_bootloader /
TCPServer.run, ordering-domain evaluation of the version relation by decision walk on the 27 order types, equality form of echo(), constants
against the firmware headers."""
import ast
import itertools
from sa.model import AnalysisError, Unknown, norm, unwrap, Obj, EnumMember
from sa.query import Facts, call_name, find_calls, defs_of, try_fold, calls_in
from sa.exc import ExcAnalysis
from sa.decide import Walker
from .c06 import _strip
from .common import (dongle_classes, protocol_classes, is_dongle_call, firmware,
                     manager_reachable, send_sites, name_defined_only_by, is_method_call_on)

TECHNIQUE = ("dominator analysis on exception-aware CFGs (interprocedural must-facts), "
             "who-may-call over the resolved call graph, ordering-domain evaluation of the "
             "version relation, constant agreement with firmware headers")
EXPLANATION = (
    "Static analysis of /repo's current source (nothing executed). Decides: the only "
    "call sites that can send a PIN/unlock APDU from the manager are the two in "
    "_handle_bootloader, outside any loop/recursion; the unlock site is dominated by "
    "onboarded, mode==BOOTLOADER, UI version supported, echo ok and retries>=2; "
    "serve_forever has one call site dominated by normal completion of "
    "initialize_device, whose normal exit is dominated by onboarded, mode==SIGNER "
    "(mode re-read after the bootloader phase) and signer version supported, and on the "
    "bootloader path by unlock success and no PIN change; supports() equals the specified "
    "relation on all 27 order types; version/mode constants equal the firmware headers. "
    "Does not decide device behaviour nor the transport."
)

PIN_OPS = {("_Command", "SEND_PIN"), ("_Command", "UNLOCK"), ("_Command", "CHANGE_PIN"),
           ("SgxCommand", "SGX_UNLOCK"), ("SgxCommand", "SGX_CHANGE_PASSWORD")}


def _pin_senders(run):
    """Dongle-layer functions that (transitively) send a PIN-class APDU."""
    A, P = run.A, run.P
    direct = set()
    dcs = dongle_classes(run)
    cand = [f for f in P.all_functions if f.cls is not None and any(f.cls in d.mro() or d in f.cls.mro() for d in dcs)]
    for fn in cand:
        for call, cmd in send_sites(run, fn):
            if isinstance(cmd, EnumMember) and (cmd.cls.name, cmd.name) in PIN_OPS:
                direct.add(fn)
    run.floor("R1", "functions sending a PIN-class APDU", len(direct), 4)
    senders = set(direct)
    changed = True
    while changed:
        changed = False
        for fn in cand:
            if fn in senders:
                continue
            for call, cs in A.callees(fn, None):
                if any(c.fn in senders for c in cs):
                    senders.add(fn)
                    changed = True
                    break
    return senders


def _lower_bound(run, fact, fn, sc):
    """For Fact cmp `x >= K` / `x > K` return the implied lower bound of x."""
    ok, k = try_fold(run.P, fact.right, fn, sc)
    if not ok or not isinstance(k, int):
        return None
    if fact.op == ">=":
        return k
    if fact.op == ">":
        return k + 1
    return None


def run(run):
    P, A = run.P, run.A
    F = Facts(A)
    L = P.cls("ledger.protocol.HSM2ProtocolLedger")
    hb = P.method(L, "_handle_bootloader")
    init = P.method(L, "initialize_device")
    gb = A.cfg(hb, L)
    gi = A.cfg(init, L)

    # ------------------------------------------------------------------ R1
    run.rule("R1", "Within the manager (everything reachable from ManagerRunner.run and the "
             "request handler), the only call sites that reach a PIN-class APDU (SEND_PIN, "
             "UNLOCK, CHANGE_PIN, SGX_UNLOCK, SGX_CHANGE_PASSWORD) are one unlock() and one "
             "new_pin() site in _handle_bootloader, neither on a CFG cycle nor in a recursive "
             "call cycle.")
    senders = _pin_senders(run)
    reach = manager_reachable(run)
    run.require(any(f is hb for f, _ in reach), "_handle_bootloader not reachable from manager roots")
    sites = []
    for fn, sc in reach:
        if fn in senders:
            continue
        for call, cs in A.callees(fn, sc):
            if any(c.fn in senders for c in cs):
                sites.append((fn, sc, call))
    uniq = {}
    for fn, sc, call in sites:
        uniq[(fn.qualname, call.lineno, call.col_offset)] = (fn, call)
    unlock_sites = [(f, c) for f, c in uniq.values() if call_name(c) == "unlock"]
    newpin_sites = [(f, c) for f, c in uniq.values() if call_name(c) == "new_pin"]
    other = [(f, c) for f, c in uniq.values() if call_name(c) not in ("unlock", "new_pin")]
    run.floor("R1", "PIN-sending call sites in manager code", len(uniq), 2)
    for f, c in other:
        run.fail("R1", f"{f.qualname}|{norm(c.func)}|pin-apdu-site", f.loc(c),
                 f"call `{norm(c)[:80]}` in {f.qualname} can send a PIN-class APDU but is "
                 "not one of the two sanctioned sites")
    for kind, ss in (("unlock", unlock_sites), ("new_pin", newpin_sites)):
        if len(ss) == 1 and ss[0][0] is hb:
            run.ok("R1", f"exactly one {kind}() site, in _handle_bootloader", hb.loc(ss[0][1]))
        else:
            for f, c in ss:
                if f is not hb or len(ss) > 1:
                    run.fail("R1", f"{f.qualname}|{kind}|extra-site", f.loc(c),
                             f"{kind}() reachable at {f.qualname}: {len(ss)} site(s) in manager "
                             f"code, expected exactly one in _handle_bootloader")
            if not ss:
                raise AnalysisError(f"R1: no {kind}() site found in manager code")
    for f, c in list(unlock_sites) + list(newpin_sites):
        g = A.cfg(f, L if f.cls in L.mro() else None)
        for cn in g.nodes_of(c):
            run.check("R1", not g.in_loop(cn), f"{call_name(c)}() site not inside a loop",
                      key=f"{f.qualname}|{call_name(c)}|in-loop", where=f.loc(c),
                      message=f"{call_name(c)}() at {f.qualname} is on a CFG cycle (retry loop): "
                              "the PIN could be sent more than once")
    # recursion: _handle_bootloader / initialize_device must not be reachable from
    # _handle_bootloader itself
    sub = A.reachable_functions([(c.fn, c.self_cls) for call, cs in A.callees(hb, L) for c in cs
                                 if c.fn is not None])
    run.check("R1", not any(f is hb or f is init for f, _ in sub),
              "_handle_bootloader is not part of a recursive call cycle",
              key="_handle_bootloader|recursion", where=hb.loc(),
              message="_handle_bootloader can re-enter itself/initialize_device: PIN may be sent twice")
    # initialize_device calls _handle_bootloader once, not in a loop
    hb_calls = [c for c, cs in A.callees(init, L) if any(x.fn is hb for x in cs)]
    run.check("R1", len(hb_calls) == 1 and not any(gi.in_loop(n) for n in gi.nodes_of(hb_calls[0])),
              "initialize_device calls _handle_bootloader at one site outside loops",
              key="initialize_device|_handle_bootloader|sites", where=init.loc(),
              message=f"_handle_bootloader called at {len(hb_calls)} site(s)/in a loop in initialize_device")
    run.require(len(hb_calls) >= 1, "no call to _handle_bootloader in initialize_device")

    # ------------------------------------------------------------------ R2
    run.rule("R2", "The unlock() site is dominated (interprocedurally) by: is_onboarded() true; "
             "mode == BOOTLOADER; _check_version(get_version(), UI_VERSION) completed, which "
             "raises unless UI_VERSION.supports(device version); echo() true, where echo() of every dongle class is the equality of the "
             "whole answer with CLA | ECHO command | the message sent; "
             "retries >= 2 with retries = get_retries().")
    if unlock_sites and unlock_sites[0][0] is hb:
        ucall = unlock_sites[0][1]
        for ucn in gb.nodes_of(ucall):
            _check_unlock_preconditions(run, F, L, hb, init, gb, gi, ucall, ucn, hb_calls[0])

    # ------------------------------------------------------------------ R3
    _check_serving(run, F, L, hb, init, gb, gi, unlock_sites, hb_calls[0])

    # ------------------------------------------------------------------ R4
    _device_reports(run)
    _check_version_relation(run, L)
    # the PIN the bring-up sends is the PIN it holds, byte for byte (rule of C18 under the prefix N.)
    from . import c18
    run.rid_prefix = "N."
    try:
        c18.pin_relay(run, "R6")
    finally:
        run.rid_prefix = ""
    _check_constants(run, L)


def _has_truthy_name_fact(facts, pol=True):
    return [f for f in facts if f.kind == "truthy" and f.pol == pol and isinstance(f.expr, ast.Name)]


def _onboard_fact(run, facts, L):
    """truthy(<name>) where name is defined only by is_onboarded() in its fn,
    or a direct call fact is_onboarded() true."""
    for f in facts:
        if f.kind == "call" and f.pol and is_dongle_call(run, f.expr, f.fn, L if f.fn.cls and f.fn.cls in L.mro() else None, {"is_onboarded"}):
            return f
        if f.kind == "truthy" and f.pol and isinstance(f.expr, ast.Name):
            sc = L if f.fn.cls is not None and f.fn.cls in L.mro() else None
            ok, _ = name_defined_only_by(run, f.fn, sc, f.expr.id,
                                         lambda c: is_dongle_call(run, c, f.fn, sc, {"is_onboarded"}))
            if ok:
                return f
    return None


def _mode_fact(run, facts, L, member, after_node=None):
    for f in facts:
        if f.kind != "cmp" or f.op != "==":
            continue
        sc = L if f.fn.cls is not None and f.fn.cls in L.mro() else None
        for a, b in ((f.left, f.right), (f.right, f.left)):
            ok, v = try_fold(run.P, b, f.fn, sc)
            try:
                mv = run.P.const_eval(b, f.fn.module, cls=sc or f.fn.cls)
            except (Unknown, AnalysisError):
                continue
            if not (isinstance(mv, EnumMember) and mv.cls.name == "_Mode" and mv.name == member):
                continue
            if isinstance(a, ast.Name):
                okd, _ = name_defined_only_by(run, f.fn, sc, a.id,
                                              lambda c: is_dongle_call(run, c, f.fn, sc, {"get_current_mode"}))
                if okd:
                    return f
            if isinstance(a, ast.Call) and is_dongle_call(run, a, f.fn, sc, {"get_current_mode"}):
                return f
    return None


def _version_check_ok(run, F, L, fn, g, cn, const_name):
    """A call to _check_version dominating cn whose firmware argument comes
    from get_version() and whose middleware argument is `self.<const_name>`,
    and whose callee raises unless mware.supports(fware)."""
    P, A = run.P, run.A
    hits = []
    for call, d in F.completed_calls(fn, L, cn):
        if call_name(call) != "_check_version":
            continue
        cs = [c for c in A.resolve_call(call, fn, L) if c.fn is not None]
        if not cs:
            continue
        cv = cs[0].fn
        if len(call.args) < 2:
            continue
        fw_arg, mw_arg = call.args[0], call.args[1]
        # middleware argument: the class constant
        if not (isinstance(mw_arg, ast.Attribute) and mw_arg.attr == const_name
                and isinstance(mw_arg.value, ast.Name) and mw_arg.value.id == "self"):
            continue
        # firmware argument: self.<field> written only from get_version(), or the call itself
        fw_ok = False
        if isinstance(fw_arg, ast.Call) and is_dongle_call(run, fw_arg, fn, L, {"get_version"}):
            fw_ok = True
        elif isinstance(fw_arg, ast.Attribute) and isinstance(fw_arg.value, ast.Name) \
                and fw_arg.value.id == "self":
            writes = [(rhs, wfn) for (rhs, wfn, tgt) in A._field_writes.get(fw_arg.attr, [])
                      if wfn.cls is not None and wfn.cls in L.mro()]
            # the write in this function must dominate the call and be get_version()
            local = [w for w in writes if w[1] is fn]
            fw_ok = bool(local) and all(isinstance(r, ast.Call) and
                                        is_dongle_call(run, r, w, L, {"get_version"})
                                        for r, w in writes)
            if fw_ok:
                # the assignment in fn must dominate the _check_version call
                fw_ok = False
                for n in A.own_nodes(fn):
                    if isinstance(n, ast.Assign) and any(
                            isinstance(t, ast.Attribute) and t.attr == fw_arg.attr for t in n.targets):
                        for an in g.nodes_of(n):
                            if all(g.dominates(an, x) for x in g.nodes_of(call)):
                                fw_ok = True
        elif isinstance(fw_arg, ast.Name):
            okd, _ = name_defined_only_by(run, fn, L, fw_arg.id,
                                          lambda c: is_dongle_call(run, c, fn, L, {"get_version"}))
            fw_ok = okd
        if not fw_ok:
            continue
        # callee: normal exit requires <param1>.supports(<param0>)
        ps = cv.params
        if len(ps) < 3:
            continue
        p_fw, p_mw = ps[1], ps[2]
        efs = F.exit_facts(cv, L)
        for f in efs:
            if f.kind == "call" and f.pol and call_name(f.expr) == "supports" \
                    and isinstance(f.expr.func, ast.Attribute) \
                    and isinstance(f.expr.func.value, ast.Name) and f.expr.func.value.id == p_mw \
                    and len(f.expr.args) == 1 and isinstance(f.expr.args[0], ast.Name) \
                    and f.expr.args[0].id == p_fw:
                hits.append(call)
    return hits


def _check_unlock_preconditions(run, F, L, hb, init, gb, gi, ucall, ucn, hb_call):
    P, A = run.P, run.A
    where = hb.loc(ucall)
    local = F.at(hb, L, ucn)
    ctx = []
    for cn in gi.nodes_of(hb_call):
        ctx = F.at(init, L, cn)
    facts = local + ctx
    site = "HSM2ProtocolLedger._handle_bootloader|unlock"
    # onboarded
    f = _onboard_fact(run, facts, L)
    run.check("R2", f is not None, "unlock dominated by is_onboarded() true",
              key=f"{site}|onboarded", where=where,
              message="the unlock()/PIN site is not dominated by a successful is_onboarded() "
                      "check: a PIN could be sent to a device that is not onboarded")
    # mode == BOOTLOADER
    f = _mode_fact(run, facts, L, "BOOTLOADER")
    run.check("R2", f is not None, "unlock dominated by mode == BOOTLOADER",
              key=f"{site}|mode-bootloader", where=where,
              message="the unlock() site is not dominated by `current_mode == MODE.BOOTLOADER` "
                      "(mode read from get_current_mode())")
    # UI version
    hits = _version_check_ok(run, F, L, hb, gb, ucn, "UI_VERSION")
    run.check("R2", bool(hits), "unlock dominated by _check_version(get_version(), UI_VERSION) "
              "which raises unless UI_VERSION.supports(device version)",
              key=f"{site}|ui-version", where=where,
              message="the unlock() site is not dominated by a completed UI version check "
                      "`_check_version(<get_version()>, self.UI_VERSION)` whose normal return "
                      "requires `mware_version.supports(fware_version)` (argument order matters)")
    # echo
    ef = [f for f in facts if f.kind == "call" and f.pol and
          is_dongle_call(run, f.expr, f.fn, L, {"echo"})]
    run.check("R2", bool(ef), "unlock dominated by echo() true",
              key=f"{site}|echo", where=where,
              message="the unlock() site is not dominated by the true edge of echo()")
    # retries
    lb = None
    for f in facts:
        if f.kind == "cmp" and f.op in (">=", ">") and isinstance(f.left, ast.Name):
            okd, _ = name_defined_only_by(run, f.fn, L, f.left.id,
                                          lambda c: is_dongle_call(run, c, f.fn, L, {"get_retries"}))
            if okd:
                b = _lower_bound(run, f, f.fn, L)
                if b is not None:
                    lb = b if lb is None else max(lb, b)
        if f.kind == "cmp" and f.op in ("<=", "<") and isinstance(f.right, ast.Name):
            # K <= retries
            okd, _ = name_defined_only_by(run, f.fn, L, f.right.id,
                                          lambda c: is_dongle_call(run, c, f.fn, L, {"get_retries"}))
            ok, k = try_fold(P, f.left, f.fn, L)
            if okd and ok and isinstance(k, int):
                b = k if f.op == "<=" else k + 1
                lb = b if lb is None else max(lb, b)
    # ... and by no more than that: with exactly two retries left the device is unlocked (the property says `at least two`)
    run.check("R2", lb is None or lb <= 2, f"the retries bound is exactly 2 (found: {lb})", key=f"{site}|retries-exact", where=where,
              message=f"the unlock() site requires `retries >= {lb}`: a device with exactly two retries left - which the property says is unlocked and served - is refused")
    run.check("R2", lb is not None and lb >= 2,
              f"unlock dominated by retries >= 2 (lower bound found: {lb})",
              key=f"{site}|retries", where=where,
              message=f"the unlock() site is not dominated by `retries >= 2` with retries = "
                      f"get_retries() (implied lower bound: {lb}); the device could be wiped")
    try:
        mar = P.class_const(L, "MIN_AVAILABLE_RETRIES")
        run.check("R2", mar == 2, "MIN_AVAILABLE_RETRIES == 2", key="MIN_AVAILABLE_RETRIES|value",
                  where=hb.loc(), message=f"MIN_AVAILABLE_RETRIES is {mar}, statement requires 2")
    except AnalysisError:
        run.note("MIN_AVAILABLE_RETRIES constant not present; bound checked on the comparison itself")
    # get_retries errors => no unlock: any dongle error while reading retries must not
    # fall through to the unlock site
    E = ExcAnalysis(A)
    # the unlock site must not be reachable from a handler that swallowed the retries read
    for n in A.own_nodes(hb):
        if isinstance(n, ast.Try):
            has_retries = any(isinstance(c, ast.Call) and call_name(c) == "get_retries"
                              for st in n.body for c in calls_in(st))
            if has_retries:
                for h in n.handlers:
                    for hn in gb.nodes_of(h):
                        reach = gb.reachable(hn)
                        run.check("R2", ucn not in reach,
                                  "a failed retries read cannot reach the unlock site",
                                  key=f"{site}|retries-error-path", where=hb.loc(h),
                                  message="the handler of the get_retries() try block can fall "
                                          "through to unlock(): PIN sent without knowing the retries")


def _check_serving(run, F, L, hb, init, gb, gi, unlock_sites, hb_call):
    P, A = run.P, run.A
    run.rule("R3", "serve_forever has one call site, dominated by normal completion of "
             "protocol.initialize_device(); every normal exit of initialize_device is dominated by "
             "onboarded, mode == SIGNER on a mode read after _handle_bootloader, and "
             "_check_version(get_version(), APP_VERSION); the normal exit of _handle_bootloader is "
             "dominated by unlock() true and pin.needs_change() false.")
    sites = []
    for fn in P.all_functions:
        for c in find_calls(A, fn, "serve_forever"):
            sites.append((fn, c))
    run.floor("R3", "serve_forever call sites", len(sites), 1)
    run.check("R3", len(sites) == 1, "exactly one serve_forever call site",
              key="serve_forever|sites", where=sites[0][0].loc(sites[0][1]),
              message=f"{len(sites)} serve_forever() call sites; every one must follow bring-up")
    for fn, c in sites:
        g = A.cfg(fn, None)
        for cn in g.nodes_of(c):
            done = [call for call, d in F.completed_calls(fn, None, cn)
                    if call_name(call) == "initialize_device"]
            run.check("R3", bool(done), "serve_forever dominated by initialize_device() completion",
                      key=f"{fn.qualname}|serve_forever|after-init", where=fn.loc(c),
                      message="serve_forever() is reachable without a completed "
                              "protocol.initialize_device() call")
            # no handler may swallow a bring-up failure and continue to serving
            for call in done:
                for n in A.own_nodes(fn):
                    if isinstance(n, ast.Try) and any(call in calls_in(st) for st in n.body):
                        for h in n.handlers:
                            for hn in g.nodes_of(h):
                                run.check("R3", cn not in g.reachable(hn),
                                          "no exception handler around initialize_device leads to serving",
                                          key=f"{fn.qualname}|serve_forever|handler-path",
                                          where=fn.loc(h),
                                          message="a handler of the bring-up try block can reach serve_forever()")
    # exit facts of initialize_device for each protocol class
    for pc in protocol_classes(run):
        ini = P.method(pc, "initialize_device")
        facts = F.exit_facts(ini, pc)
        tag = f"{pc.name}.initialize_device|exit"
        f1 = _onboard_fact(run, facts, L)
        run.check("R3", f1 is not None, f"{pc.name}: normal exit requires onboarded",
                  key=f"{tag}|onboarded", where=ini.loc(),
                  message=f"{pc.name}.initialize_device can return normally without a successful "
                          "onboarded check: the manager would serve a device that is not onboarded")
        f2 = _mode_fact(run, facts, L, "SIGNER")
        run.check("R3", f2 is not None, f"{pc.name}: normal exit requires mode == SIGNER",
                  key=f"{tag}|mode-signer", where=ini.loc(),
                  message=f"{pc.name}.initialize_device can return normally without "
                          "`current_mode == MODE.SIGNER`")
    hits = _version_check_ok(run, F, L, init, gi, gi.exit, "APP_VERSION")
    run.check("R3", bool(hits), "normal exit requires _check_version(get_version(), APP_VERSION)",
              key="HSM2ProtocolLedger.initialize_device|exit|app-version", where=init.loc(),
              message="initialize_device can return normally without a completed signer version "
                      "check `_check_version(<get_version()>, self.APP_VERSION)`")
    # the app version must be read after the final mode check (i.e. from the signer)
    if hits:
        f2 = _mode_fact(run, F.local(init, L, gi.nodes_of(hits[0])[0]), L, "SIGNER")
        run.check("R3", f2 is not None, "signer version is read under mode == SIGNER",
                  key="HSM2ProtocolLedger.initialize_device|app-version|under-signer",
                  where=init.loc(hits[0]),
                  message="the APP_VERSION check is not dominated by mode == SIGNER")
    # mode re-read after _handle_bootloader
    def _tests_signer(n):
        root = n.ast if n.kind == "cond" else (n.ast.value if isinstance(n.ast, (ast.Assign, ast.AnnAssign)) else None)
        return root is not None and any(isinstance(x, ast.Compare) and any(isinstance(c, ast.Attribute) and c.attr == "SIGNER" for c in ast.walk(x))
                                        for x in ast.walk(root))
    sig_conds = [n for n in gi.nodes if n.kind in ("cond", "stmt") and n.ast is not None and _tests_signer(n)]
    run.floor("R3", "mode == SIGNER condition in initialize_device", len(sig_conds), 1)
    rereads = [an for n in A.own_nodes(init) if isinstance(n, ast.Assign)
               and isinstance(n.value, ast.Call) and is_dongle_call(run, n.value, init, L, {"get_current_mode"})
               for an in gi.nodes_of(n)]
    for hn in gi.nodes_of(hb_call):
        for sc_ in sig_conds:
            run.check("R3", gi.all_paths_pass(hn, sc_, set(rereads) - {hn}) or not gi.exists_path(hn, sc_),
                      "mode is re-read between _handle_bootloader() and the SIGNER check",
                      key="HSM2ProtocolLedger.initialize_device|mode-reread", where=init.loc(hb_call),
                      message="after _handle_bootloader() the SIGNER check can use the mode read "
                              "before unlocking (stale mode)")
    # _handle_bootloader normal exit
    ef = F.exit_facts(hb, L)
    uf = [f for f in ef if f.kind == "call" and f.pol and is_dongle_call(run, f.expr, f.fn, L, {"unlock"})]
    run.check("R3", bool(uf), "_handle_bootloader returns normally only after unlock() true",
              key="HSM2ProtocolLedger._handle_bootloader|exit|unlock-true", where=hb.loc(),
              message="_handle_bootloader can return normally although unlock() reported failure")
    pin_cls = [P.cls("ledger.pin.FileBasedPin")]
    nf = [f for f in ef if f.kind == "call" and not f.pol and call_name(f.expr) == "needs_change"]
    run.check("R3", bool(nf), "_handle_bootloader returns normally only when no PIN change was needed",
              key="HSM2ProtocolLedger._handle_bootloader|exit|no-pin-change", where=hb.loc(),
              message="_handle_bootloader can return normally after a PIN change attempt: the manager "
                      "would go on to serve instead of stopping")
    # exceptions leaving initialize_device are stop-without-serving ones
    E = ExcAnalysis(A)
    esc = E.esc(init, L)
    run.extra["initialize_device_escapes"] = sorted(esc)
    run.check("R3", "HSM2ProtocolError" in esc and "HSM2ProtocolInterrupt" in esc,
              "failed bring-up leaves through HSM2ProtocolError / HSM2ProtocolInterrupt",
              key="initialize_device|escape-classes", where=init.loc(),
              message=f"unexpected escape set of initialize_device: {sorted(esc)}")


def _device_reports(run):
    """The mode / onboarded flag / versions the bring-up decides on are what the device reported, for every dongle class (Ledger, TCP, SGX)."""
    P, A = run.P, run.A
    from sa.decide import return_values
    from sa.prov import Prov
    PVd = Prov(A)
    base = P.cls("ledger.hsm2dongle.HSM2Dongle")
    want = {
        "get_current_mode": {"self.MODE(self._send_command(self.CMD.GET_MODE)[1])"},
        "is_onboarded": {"self._send_command(self.CMD.IS_ONBOARD)[1] == 1"},
        # the retries byte is the third byte of the answer on both platforms (ui_comm.c: APDU_DATA_PTR[0] after CLA, CMD; system.c SGX_RETRIES alike)
        "get_retries": {"self._send_command(self.CMD.RETRIES)[2]", "self._send_command(SgxCommand.SGX_RETRIES)[2]"},
        # major, minor, patch are bytes 2, 3, 4 of the IS_ONBOARD answer, in this order (ui_comm.c / hsm.c: VERSION_MAJOR, VERSION_MINOR, VERSION_PATCH)
        "get_version": {"HSM2FirmwareVersion(self._send_command(self.CMD.IS_ONBOARD)[2], self._send_command(self.CMD.IS_ONBOARD)[3], self._send_command(self.CMD.IS_ONBOARD)[4])"},
    }
    for dc in dongle_classes(run):
        for mname, wv in want.items():
            r_ = dc.lookup(mname)
            run.require(r_ is not None and r_[1] == "method", f"{dc.name}.{mname} vanished")
            m = r_[2]
            own = r_[0]
            from .common import canon_text
            from sa.canon import canon_sums as _csm

            def _cf(x, m=m, dc=dc):
                # indices written with the offset table (self.OFF.OP, self.OFF.DATA + 1) are the numbers they stand for
                try:
                    e_ = ast.parse(x, mode="eval").body
                except SyntaxError:
                    return _strip(x)

                class _Idx(ast.NodeTransformer):
                    def visit_Subscript(s_, node):
                        s_.generic_visit(node)
                        if not isinstance(node.slice, (ast.Slice, ast.Constant)):
                            ok_, v_ = try_fold(P, node.slice, m, dc)
                            if ok_ and isinstance(unwrap(v_), int):
                                node.slice = ast.Constant(value=unwrap(v_))
                        return node
                return _strip(norm(_Idx().visit(e_)))
            rv = {_cf(_strip(canon_text(run, m, dc, x, locals_=set(m.params)))) for x in return_values(A, m, dc, PVd)}
            if mname == "get_retries":
                wv = {w for w in wv if ("SGX_RETRIES" in w) == (own.name == "HSM2DongleSGX")}
            okv = rv == {_strip(canon_text(run, m, dc, w)) for w in wv}
            run.check("R3", okv, f"{dc.name}.{mname} reports the device's own answer", key=f"{dc.name}.{mname}|source", where=m.loc(),
                      message=f"{dc.name}.{mname} (defined in {own.name}) returns {sorted(rv)[:3]}; expected {sorted(wv)} (for get_current_mode: UNKNOWN only "
                              "when the exchange fails): a mode / flag / retry count the device did not report would let the bring-up unlock or serve in a state it must stop in")
            if mname != "get_current_mode":
                hs = [h for n in A.own_nodes(m) if isinstance(n, ast.Try) for h in n.handlers]
                run.check("R3", not hs, f"{dc.name}.{mname}: a failed query is not an answer", key=f"{dc.name}.{mname}|handlers", where=m.loc(),
                          message=f"{dc.name}.{mname} turns a failed exchange ({[norm(h.type) if h.type is not None else 'any exception' for h in hs]}) into an answer: "
                                  "`not onboarded` / `onboarded` would then be decided without the device having said so (a seed and a wipe, or a PIN, sent on a guess)")
            if mname == "get_current_mode":
                hs = [h for n in A.own_nodes(m) if isinstance(n, ast.Try) for h in n.handlers]
                okh = all(norm(h.type) in ("HSM2DongleError",) for h in hs if h.type is not None) and all(h.type is not None for h in hs) \
                    and all(isinstance(x, ast.Return) and x.value is not None and norm(x.value) == "self.MODE.UNKNOWN" for h in hs for x in ast.walk(h)
                            if isinstance(x, (ast.Return, ast.Raise)))
                run.check("R3", okh, f"{dc.name}.{mname}: UNKNOWN only for a failed exchange", key=f"{dc.name}.{mname}|handlers", where=m.loc(),
                          message=f"{dc.name}.{mname} maps {[norm(h.type) if h.type is not None else 'any exception' for h in hs]} to a mode")


def _check_version_relation(run, L):
    P, A = run.P, run.A
    run.rule("R4", "HSM2FirmwareVersion.supports(running) == (major equal) and (minor greater or "
             "(minor equal and patch >=)) on all 27 order types of (major, minor, patch); "
             "UI_VERSION / APP_VERSION equal the firmware's VERSION_MAJOR/MINOR/PATCH; get_version "
             "reads bytes 2,3,4 and is_onboarded byte 1 of a fresh IS_ONBOARD reply; _Mode = modes.h.")
    V = P.cls("ledger.version.HSM2FirmwareVersion")
    sup = P.method(V, "supports")
    other = sup.params[1]
    gs = A.cfg(sup, V)

    def is_cmp(e):
        if isinstance(e, ast.Compare) and len(e.ops) == 1:
            a, b = e.left, e.comparators[0]
            return (isinstance(a, ast.Attribute) and isinstance(b, ast.Attribute)
                    and isinstance(a.value, ast.Name) and isinstance(b.value, ast.Name)
                    and {a.value.id, b.value.id} == {"self", other}
                    and a.attr == b.attr and a.attr in ("major", "minor", "patch")
                    and isinstance(e.ops[0], (ast.Lt, ast.LtE, ast.Gt, ast.GtE, ast.Eq, ast.NotEq)))
        return False

    def ev(e, env):
        if isinstance(e, ast.Constant) and isinstance(e.value, bool):
            return e.value
        if isinstance(e, ast.BoolOp):
            vals = [ev(v, env) for v in e.values]
            return all(vals) if isinstance(e.op, ast.And) else any(vals)
        if isinstance(e, ast.UnaryOp) and isinstance(e.op, ast.Not):
            return not ev(e.operand, env)
        if not is_cmp(e):
            raise AnalysisError("supports() uses something other than comparisons of matching version fields: ordering-domain "
                                f"evaluation not applicable (UNDECIDED): `{norm(e)[:60]}`")
        a, b = e.left, e.comparators[0]
        x, y = env[(a.value.id, a.attr)], env[(b.value.id, b.attr)]
        op = e.ops[0]
        return {ast.Lt: x < y, ast.LtE: x <= y, ast.Gt: x > y, ast.GtE: x >= y,
                ast.Eq: x == y, ast.NotEq: x != y}[type(op)]
    bad = []
    shown = None
    for dm, dn, dp in itertools.product((-1, 0, 1), repeat=3):
        env = {("self", "major"): 5, ("self", "minor"): 5, ("self", "patch"): 5,
               (other, "major"): 5 - dm, (other, "minor"): 5 - dn, (other, "patch"): 5 - dp}
        # d = sign(self - running)
        spec = (dm == 0) and (dn > 0 or (dn == 0 and dp >= 0))

        def atom(e, env=env):
            return (ev(e, env), True)
        leaves = [lf for lf in Walker(A, sup, V, atom).walk(gs.entry)]
        run.require(len(leaves) == 1 and leaves[0].kind == "return" and leaves[0].node.ast.value is not None,
                    "HSM2FirmwareVersion.supports: not a decision over version-field comparisons ending in a return (ORD evaluation not applicable)")
        got = ev(leaves[0].deep(leaves[0].node.ast.value), env)
        shown = shown or norm(leaves[0].node.ast)
        if got != spec:
            bad.append((dm, dn, dp, got, spec))
    expr = shown or "supports"
    rel = {-1: "<", 0: "=", 1: ">"}
    if bad:
        dm, dn, dp, got, spec = bad[0]
        run.fail("R4", "HSM2FirmwareVersion.supports|relation", sup.loc(),
                 f"supports() differs from the specified relation on {len(bad)}/27 order types, "
                 f"e.g. middleware major{rel[dm]}firmware, minor{rel[dn]}, patch{rel[dp]}: "
                 f"returns {got}, specification says {spec}",
                 witness=f"return {norm(expr)}")
    else:
        run.ok("R4", "supports() == specified relation on all 27 order types", sup.loc())
    run.extra["ord_cases"] = 27
    # _check_version uses supports with (mware).supports(fware): covered in R2/R3.


def _check_echo(run):
    """`echoed correctly`: echo() is the equality of the whole answer with CLA | command | the message sent."""
    P, A = run.P, run.A
    from sa.prov import Prov
    from sa.layout import Layout
    from sa.decide import return_values, cmp_parts
    PV = Prov(A)
    for dc in dongle_classes(run):
        r_ = dc.lookup("echo")
        if r_ is None or r_[1] != "method" or r_[2].cls is not dc:
            continue
        ec = r_[2]
        Ly = Layout(lambda e: try_fold(P, e, ec, dc))
        vals = return_values(A, ec, dc, PV)
        run.floor("R2", f"return values of {dc.name}.echo", len(vals), 1)
        for v in sorted(vals):
            e = ast.parse(v, mode="eval").body
            cp = cmp_parts(e)
            ok = False
            why = f"returns `{v[:120]}`"
            if cp is not None and cp[1] == "==":
                sides = [cp[0], cp[2]]
                ans = [s for s in sides if isinstance(s, ast.Call) and norm(s.func) == "bytes" and len(s.args) == 1
                       and isinstance(s.args[0], ast.Call) and call_name(s.args[0]) == "_send_command"]
                exp = [s for s in sides if s not in ans]
                if len(ans) == 1 and len(exp) == 1:
                    send = ans[0].args[0]
                    msg = Ly.canon(send.args[1]) if len(send.args) > 1 else None
                    okc, cmd = try_fold(P, send.args[0], ec, dc)
                    okl, cla = try_fold(P, ast.parse("self.CLA", mode="eval").body, ec, dc)
                    want = f"u8({int(cla)}) | u8({int(cmd)}) | {msg}" if okc and okl and msg else None
                    got = Ly.canon(exp[0])
                    ok = want is not None and got == want
                    why = f"compares the answer with `{got}`, expected `{want}`"
            run.check("R2", ok, f"{dc.name}.echo() == (whole answer equals CLA | ECHO | message)", key=f"{dc.name}.echo|equality", where=ec.loc(),
                      message=f"{dc.name}.echo {why}: only the equality of the complete answer with CLA | command | the message sent means the device "
                              "echoed correctly (a prefix / element-wise / containment test accepts truncated or padded answers)")


def _check_constants(run, L):
    P, A = run.P, run.A
    _check_echo(run)
    fw = firmware(run)
    for const, rel in (("UI_VERSION", "ledger/ui/src/defs.h"), ("APP_VERSION", "powhsm/src/defs.h")):
        v = P.class_const(L, const)
        want = tuple(fw.define(rel, n) for n in ("VERSION_MAJOR", "VERSION_MINOR", "VERSION_PATCH"))
        got = tuple(unwrap(a) for a in v.args) if isinstance(v, Obj) else None
        run.check("R4", got == want, f"{const} == firmware {rel} version {want}",
                  key=f"HSM2ProtocolLedger.{const}|value", where=L.module.relpath,
                  message=f"{const} is {got} but firmware/src/{rel} defines {want}")
    modes = fw.file("common/src/modes.h").all_enum_members()
    M = P.enum_members(P.cls("ledger.hsm2dongle._Mode"))
    for py, c in (("BOOTLOADER", "APP_MODE_BOOTLOADER"), ("SIGNER", "APP_MODE_SIGNER"),
                  ("UI_HEARTBEAT", "APP_MODE_UI_HEARTBEAT")):
        run.require(c in modes, f"{c} vanished from modes.h")
        run.check("R4", py in M and M[py].value == modes[c], f"_Mode.{py} == {c}",
                  key=f"_Mode.{py}|value", where="middleware/ledger/hsm2dongle.py",
                  message=f"_Mode.{py} = {M.get(py)} but modes.h says {modes[c]}")
    # get_version / is_onboarded read a *fresh* IS_ONBOARD reply at the right offsets
    D = P.cls("ledger.hsm2dongle.HSM2Dongle")
    for dc in dongle_classes(run):
        for mname, idxs in (("get_version", [2, 3, 4]), ("is_onboarded", [1])):
            fn = P.method(dc, mname)
            g = A.cfg(fn, dc)
            sends = [(c, cmd) for c, cmd in send_sites(run, fn)]
            fresh = [c for c, cmd in sends if isinstance(cmd, EnumMember) and cmd.name == "IS_ONBOARD"]
            okf = bool(fresh) and all(g.dominates(n, g.exit) for c in fresh for n in g.nodes_of(c)) \
                and len(sends) == len(fresh)
            run.check("R4", okf, f"{dc.name}.{mname} issues IS_ONBOARD on every path to its return",
                      key=f"{fn.qualname}|fresh-reply", where=fn.loc(),
                      message=f"{fn.qualname} can return without having sent IS_ONBOARD in this "
                              "call (cached/stale reply): version or onboarded status may belong "
                              "to a previous mode")
            # offsets: subscripts of the reply variable
            subs = sorted(set(unwrap(P.const_eval(n.slice, fn.module, cls=dc))
                              for n in A.own_nodes(fn)
                              if isinstance(n, ast.Subscript) and isinstance(n.ctx, ast.Load)
                              and isinstance(n.slice, (ast.Constant, ast.Attribute, ast.Name, ast.BinOp))
                              and _foldable(P, n.slice, fn, dc)))
            run.check("R4", subs == idxs, f"{dc.name}.{mname} reads reply bytes {idxs}",
                      key=f"{fn.qualname}|offsets", where=fn.loc(),
                      message=f"{fn.qualname} reads reply offsets {subs}, firmware puts the datum at {idxs}")


def _foldable(P, e, fn, dc):
    try:
        v = unwrap(P.const_eval(e, fn.module, cls=dc))
        return isinstance(v, int)
    except (Unknown, AnalysisError):
        return False
