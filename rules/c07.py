"""C07 - an SGX (version 2) attestation is accepted only if the whole
quote-to-root chain verifies."""
import ast
import re
from sa.model import AnalysisError, Unknown, norm, unwrap
from sa.query import Facts, call_name, find_calls, try_fold, calls_in, defs_of
from sa.prov import Prov
from . import c06
from .c06 import _strip, _purity
from .common import expansions, canon_text, prop_expand
from sa.decide import return_values

TECHNIQUE = ("provenance expansion of each element type's verdict expression against the specified "
             "construction, dominance of every non-False return by the binding-hash comparison / "
             "validity window / signature verification, struct layout folding from the CStruct "
             "specifications against the Intel sizes, shared chain-walk rules of C06")
EXPLANATION = (
    "Static analysis of /repo's current source (nothing executed). Decides that every path to a "
    "non-False verdict passes all obligations of its element type: sgx_quote - SHA-256(custom data) "
    "equals the first 32 bytes of the quote's report data, then the certifier's P-256 key verifies "
    "SHA-256(raw message) with the DER signature; sgx_attestation_key - SHA-256(key || auth data) "
    "equals the first 32 bytes of the report body's report data, then the same verification; x509 - "
    "certifier is an x509 element, not_before <= now <= not_after (UTC clock), issuer key verifies "
    "(signature, tbs bytes, ECDSA(hash)) before True, P-256 only; the valid result carries custom "
    "data and the quote parsed from the signed bytes; struct sizes/offsets equal Intel's layout; v2 "
    "uses the (C06-checked) chain walk unchanged. Does not decide ecdsa/cryptography behaviour."
)

SIZES = {"uint8_t": 1, "uint16_t": 2, "uint32_t": 4, "uint64_t": 8}


def struct_table(run):
    """{typename: (size, {field: (offset, size)}, class)} folded from CStruct docstrings."""
    P = run.P
    base = P.cls("comm.cstruct.CStruct")
    specs = {}
    for ci in P.subclasses(base, strict=True):
        doc = ast.get_docstring(ci.node, clean=False)
        if doc is None:
            continue
        lines = [re.sub(r"\s+", " ", l.strip()) for l in doc.split("\n")]
        lines = [l for l in lines if l]
        if not lines:
            continue
        specs[lines[0]] = (ci, [l.split(" ") for l in lines[1:]])
    out = {}

    def size_of(tn, depth=0):
        if tn in SIZES:
            return SIZES[tn]
        if tn in out:
            return out[tn][0]
        if tn not in specs or depth > 6:
            raise AnalysisError(f"CStruct type `{tn}` not defined")
        ci, fields = specs[tn]
        off = 0
        fm = {}
        for f in fields:
            if len(f) < 2:
                raise AnalysisError(f"CStruct {tn}: bad field line {f}")
            cnt = int(f[2]) if len(f) > 2 else 1
            if len(f) > 2 and f[0] != "uint8_t":
                raise AnalysisError(f"CStruct {tn}: array of {f[0]} not modelled")
            sz = size_of(f[0], depth + 1) * cnt
            fm[f[1]] = (off, sz)
            off += sz
        out[tn] = (off, fm, ci)
        return off
    for tn in specs:
        size_of(tn)
    return out


def run(run):
    P, A = run.P, run.A
    F = Facts(A)
    PV = Prov(A)
    V2 = P.cls("admin.certificate_v2.HSMCertificateV2")
    V1 = P.cls("admin.certificate_v1.HSMCertificate")
    run.rule("R0", "HSMCertificateV2 uses HSMCertificate.validate_and_get_values / _parse unchanged (the C06 "
             "chain-walk rules are re-applied here); ROOT_ELEMENT == 'sgx_root'; elements are built by "
             "HSMCertificateV2Element.from_dict through TYPE_MAPPING = {sgx_quote, sgx_attestation_key, x509_pem}.")
    for m in ("validate_and_get_values", "_parse", "add_element"):
        r = V2.lookup(m)
        run.check("R0", r is not None and r[0] is V1, f"v2 inherits {m} from v1", key=f"HSMCertificateV2.{m}|override",
                  where=V2.module.relpath, message=f"HSMCertificateV2 overrides {m}: the verified chain walk is bypassed")
    run.check("R0", P.class_const(V2, "ROOT_ELEMENT") == "sgx_root", "ROOT_ELEMENT == 'sgx_root'",
              key="HSMCertificateV2.ROOT_ELEMENT|value", where=V2.module.relpath, message="v2 ROOT_ELEMENT changed")
    EL = P.cls("admin.certificate_v2.HSMCertificateV2Element")
    tm = P.class_const(EL, "TYPE_MAPPING")
    want = {"sgx_quote": "HSMCertificateV2ElementSGXQuote", "sgx_attestation_key": "HSMCertificateV2ElementSGXAttestationKey",
            "x509_pem": "HSMCertificateV2ElementX509"}
    got = {k: v.cls.name for k, v in tm.items()} if isinstance(tm, dict) else {}
    run.check("R0", got == want, "TYPE_MAPPING as documented", key="HSMCertificateV2Element.TYPE_MAPPING|table",
              where=EL.module.relpath, message=f"TYPE_MAPPING is {got}")
    c06.chain_walk(run, F, PV, V1)
    # --------------------------------------------------------------- quote
    Q = P.cls("admin.certificate_v2.HSMCertificateV2ElementSGXQuote")
    K = P.cls("admin.certificate_v2.HSMCertificateV2ElementSGXAttestationKey")
    X = P.cls("admin.certificate_v2.HSMCertificateV2ElementX509")
    _digest_element(run, F, PV, Q, "hashlib.sha256(self._custom_data).digest()",
                    "self.message.report_body.report_data.field", "SgxQuote(self._message)", "sgx_quote")
    _digest_element(run, F, PV, K, "hashlib.sha256(self.key.to_string() + self._auth_data).digest()",
                    "self.message.report_data.field", "SgxReportBody(self._message)", "sgx_attestation_key")
    _x509(run, F, PV, X)
    for cls_, rid_, label_, expd, fld in ((Q, "R1", "sgx_quote", "hashlib.sha256(self._custom_data).digest()", "self.message.report_body.report_data.field"),
                                         (K, "R2", "sgx_attestation_key", "hashlib.sha256(self.key.to_string() + self._auth_data).digest()",
                                          "self.message.report_data.field")):
        c_ = P.method(cls_, "is_valid").params[1]
        _closed_world(run, PV, cls_, rid_, label_, [
            f"{expd} != {fld}[:len({expd})]", f"{fld}[:32]",
            f"{c_}.get_pubkey().verify_digest(self._signature, hashlib.sha256(self._message).digest(), ecdsa.util.sigdecode_der)"], c_)
    cx = P.method(X, "is_valid").params[1]
    _closed_world(run, PV, X, "R3", "x509", [
        f"isinstance({cx}, type(self))", "self.certificate.not_valid_before_utc > datetime.now(UTC)", "self.certificate.not_valid_after_utc < datetime.now(UTC)",
        f"{cx}.certificate.public_key().verify(self.certificate.signature, self.certificate.tbs_certificate_bytes, ec.ECDSA(self.certificate.signature_hash_algorithm))"], cx)
    _values(run, PV, Q, K)
    _layout(run)


def _closed_world(run, PV, cls, rid, label, roots, cert):
    """Nothing but the specified checks can make is_valid reject: every condition and every call of the method is (part of) one of the
    specified expressions - an extra `hardening` test or an extra call that may raise turns sound chains into failures."""
    P, A = run.P, run.A
    fn = P.method(cls, "is_valid")
    g = A.cfg(fn, cls)
    roots = [_strip(canon_text(run, fn, cls, r)) for r in roots]

    def part_of(t):
        return any(t in r for r in roots)
    extra = []
    n_seen = 0
    for n in g.nodes:
        if n.kind != "cond":
            continue
        n_seen += 1
        e = n.ast
        while isinstance(e, ast.UnaryOp) and isinstance(e.op, ast.Not):
            e = e.operand
        for x in expansions(run, PV, fn, cls, e, n):
            x = _strip(x)
            try:
                xe = ast.parse(x, mode="eval").body
            except SyntaxError:
                xe = None
            sides = [_strip(norm(xe.left)), _strip(norm(xe.comparators[0]))] if isinstance(xe, ast.Compare) and len(xe.ops) == 1 else [x]
            if not all(part_of(sd) or re.fullmatch(r"-?\d+", sd) for sd in sides):
                extra.append(("condition", x, n))
    for c in A.own_nodes(fn):
        if isinstance(c, ast.Call) and not (isinstance(c.func, ast.Attribute) and isinstance(c.func.value, ast.Attribute) and c.func.value.attr == "logger"):
            for cn in g.nodes_of(c):
                n_seen += 1
                for x in expansions(run, PV, fn, cls, c, cn):
                    if not part_of(_strip(x)):
                        extra.append(("call", _strip(x), cn))
    run.floor(rid, f"conditions and calls of {label}.is_valid compared with the specification", n_seen, 4)
    seen_ = set()
    for kind, x, n in extra:
        if (kind, x) in seen_:
            continue
        seen_.add((kind, x))
        run.fail(rid, f"{cls.name}.is_valid|extra-{kind}|{x[:60]}", fn.loc(n.ast) if n.ast is not None else fn.loc(),
                 f"{label}.is_valid has the additional {kind} `{x[:120]}`: an element whose chain is sound can be reported invalid (the specification names the "
                 "checks that may reject, and no others)")
    if not extra:
        run.ok(rid, f"{label}.is_valid: no condition or call beyond the specified ones", fn.loc())


def _digest_element(run, F, PV, cls, want_expected, want_field, want_msg, label):
    P, A = run.P, run.A
    rid = "R1" if label == "sgx_quote" else "R2"
    run.rule(rid, f"{label}.is_valid: every non-False return is certifier.get_pubkey().verify_digest("
             "self._signature, SHA-256(self._message), sigdecode_der) and is dominated by the false edge of "
             f"`expected != <report data>[:len(expected)]` with expected = {want_expected}; exceptions give "
             "False; no instance state is written; the message property parses the signed bytes.")
    fn = P.method(cls, "is_valid")
    g = A.cfg(fn, cls)
    cert = fn.params[1]
    rets = [n for n in A.own_nodes(fn) if isinstance(n, ast.Return)]
    want_verify = _strip(f"{cert}.get_pubkey().verify_digest(self._signature, hashlib.sha256(self._message).digest(), "
                         "ecdsa.util.sigdecode_der)")
    nonfalse = 0
    for r in rets:
        if isinstance(r.value, ast.Constant) and r.value.value is False:
            continue
        nonfalse += 1
        for rn in g.nodes_of(r):
            got = {_strip(v) for v in PV.expand_consistent(fn, cls, r.value, rn)}
            run.check(rid, got == {want_verify}, f"{label}: verdict is the signature verification",
                      key=f"{cls.name}.is_valid|verification-expression", where=fn.loc(r),
                      message=f"{label}.is_valid returns {sorted(got)[:1]}, expected `{want_verify}`")
            # binding hash comparison dominates
            ok = False
            for f in F.local(fn, cls, rn):
                if f.kind == "cmp" and f.op == "==":
                    for a, b in ((f.left, f.right), (f.right, f.left)):
                        ea = {_strip(v) for v in PV.expand_consistent(fn, cls, a, f.node)}
                        eb = {_strip(v) for v in PV.expand_consistent(fn, cls, b, f.node)}
                        exp = _strip(want_expected)
                        fld1 = _strip(f"{want_field}[:len({want_expected})]")
                        fld2 = _strip(f"{want_field}[:32]")
                        if ea == {exp} and (eb == {fld1} or eb == {fld2}):
                            ok = True
            run.check(rid, ok, f"{label}: binding hash compared with the report data prefix before verifying",
                      key=f"{cls.name}.is_valid|binding-hash", where=fn.loc(r),
                      message=f"{label}.is_valid can return a non-False verdict without "
                              f"`{want_expected} == {want_field}[:32]` having held (comparison dropped, weakened "
                              "or made on another field)")
    run.floor(rid, f"non-False returns in {label}.is_valid", nonfalse, 1)
    trys = [n for n in A.own_nodes(fn) if isinstance(n, ast.Try)]
    okh = len(trys) == 1 and len([s for s in fn.node.body if not isinstance(s, ast.Expr)]) == 1 and any(
        (h.type is None or norm(h.type) in ("Exception", "BaseException")) and len(h.body) == 1
        and isinstance(h.body[0], ast.Return) and isinstance(h.body[0].value, ast.Constant)
        and h.body[0].value.value is False for h in trys[0].handlers)
    run.check(rid, okh, f"{label}: exceptions give False", key=f"{cls.name}.is_valid|handler", where=fn.loc(),
              message=f"{label}.is_valid is not entirely inside `try: ... except Exception: return False`")
    _purity(run, fn, set(), f"{label}.is_valid", rid)
    mp = P.method(cls, "message")
    rr = [n for n in A.own_nodes(mp) if isinstance(n, ast.Return)]
    run.check(rid, len(rr) == 1 and norm(rr[0].value) == want_msg, f"{label}.message parses the signed bytes",
              key=f"{cls.name}.message|getter", where=mp.loc(),
              message=f"{label}.message is `{norm(rr[0].value) if rr else None}`, expected `{want_msg}`")
    for fld in ("_message", "_signature", "_custom_data", "_key", "_auth_data"):
        ws = [(rhs, wfn) for (rhs, wfn, tgt) in A._field_writes.get(fld, []) if wfn.cls is cls]
        if ws:
            run.check(rid, all(w.name in ("__init__", "_init_with_map") for r_, w in ws),
                      f"{label}.{fld} written only while parsing", key=f"{cls.name}.{fld}|writers", where=cls.module.relpath,
                      message=f"{cls.name}.{fld} is written outside the constructor")
    if label == "sgx_attestation_key":
        for nm in ("get_pubkey", "key"):
            m = P.method(cls, nm)
            rv_ = {_strip(prop_expand(run, PV, cls, v)) for v in return_values(A, m, cls, PV)}
            run.check(rid, rv_ == {_strip("ecdsa.VerifyingKey.from_string(self._key, ecdsa.NIST256p)")},
                      f"{label}.{nm} is the P-256 key of the element", key=f"{cls.name}.{nm}|expr", where=m.loc(),
                      message=f"{cls.name}.{nm} does not build the NIST P-256 key from the element's `key`")


def _x509(run, F, PV, X):
    P, A = run.P, run.A
    run.rule("R3", "x509.is_valid: the certifier must be an x509 element; `return True` is dominated by "
             "not_valid_before_utc <= now and not_valid_after_utc >= now (now = datetime.now(UTC)) and by the "
             "completed issuer.public_key().verify(subject.signature, subject.tbs_certificate_bytes, "
             "ec.ECDSA(subject.signature_hash_algorithm)) with subject = self.certificate and issuer = "
             "certifier.certificate; exceptions give False; get_pubkey rejects non-SECP256R1 keys.")
    fn = P.method(X, "is_valid")
    g = A.cfg(fn, X)
    cert = fn.params[1]
    rets = [n for n in A.own_nodes(fn) if isinstance(n, ast.Return)]
    trues = [r for r in rets if not (isinstance(r.value, ast.Constant) and r.value.value is False)]
    run.floor("R3", "non-False returns in x509.is_valid", len(trues), 1)
    for r in trues:
        run.check("R3", isinstance(r.value, ast.Constant) and r.value.value is True, "x509 verdict is the constant True",
                  key="HSMCertificateV2ElementX509.is_valid|return-shape", where=fn.loc(r),
                  message=f"x509.is_valid returns `{norm(r.value)}`")
        for rn in g.nodes_of(r):
            facts = F.local(fn, X, rn)
            exp = {}
            for f in facts:
                if f.kind == "cmp":
                    l = {_strip(v) for v in PV.expand_consistent(fn, X, f.left, f.node)}
                    rr_ = {_strip(v) for v in PV.expand_consistent(fn, X, f.right, f.node)}
                    exp[(tuple(sorted(l)), f.op, tuple(sorted(rr_)))] = f
                if f.kind == "call" and f.pol and call_name(f.expr) == "isinstance":
                    exp[("isinstance", norm(f.expr.args[0]), norm(f.expr.args[1]))] = f
            now = "datetime.now(UTC)"
            nb = ("self.certificate.not_valid_before_utc",)
            na = ("self.certificate.not_valid_after_utc",)
            ok_nb = (nb, "<=", (now,)) in exp or ((now,), ">=", nb) in exp
            ok_na = (na, ">=", (now,)) in exp or ((now,), "<=", na) in exp
            run.check("R3", ok_nb, "x509: not_valid_before <= now", key="HSMCertificateV2ElementX509.is_valid|not-before",
                      where=fn.loc(r), message="x509.is_valid can return True for a certificate that is not yet "
                      "valid (the `not_valid_before_utc <= now` bound is missing or not on the UTC clock)")
            run.check("R3", ok_na, "x509: not_valid_after >= now", key="HSMCertificateV2ElementX509.is_valid|not-after",
                      where=fn.loc(r), message="x509.is_valid can return True for an expired certificate "
                      "(the `not_valid_after_utc >= now` bound is missing or not on the UTC clock)")
            ok_ty = ("isinstance", cert, "type(self)") in exp
            run.check("R3", ok_ty, "x509: certifier is an x509 element", key="HSMCertificateV2ElementX509.is_valid|certifier-type",
                      where=fn.loc(r), message="x509.is_valid accepts a certifier that is not an x509 element")
            ver = [c for c, d in F.completed_calls(fn, X, rn) if call_name(c) == "verify"]
            okv = False
            want = _strip(f"{cert}.certificate.public_key().verify(self.certificate.signature, "
                          "self.certificate.tbs_certificate_bytes, ec.ECDSA(self.certificate.signature_hash_algorithm))")
            for c in ver:
                for cn in g.nodes_of(c):
                    if {_strip(v) for v in PV.expand_consistent(fn, X, c, cn)} == {want}:
                        okv = True
            run.check("R3", okv, "x509: issuer signature verified before True",
                      key="HSMCertificateV2ElementX509.is_valid|issuer-verify", where=fn.loc(r),
                      message="x509.is_valid can return True without the completed issuer verification "
                              f"`{want}` (verify dropped, hoisted below the return, or made with another key/data)")
    trys = [n for n in A.own_nodes(fn) if isinstance(n, ast.Try)]
    okh = len(trys) == 1 and any((h.type is None or norm(h.type) in ("Exception", "BaseException"))
                                 and isinstance(h.body[-1], ast.Return) and isinstance(h.body[-1].value, ast.Constant)
                                 and h.body[-1].value.value is False for h in trys[0].handlers)
    run.check("R3", okh, "x509: exceptions give False", key="HSMCertificateV2ElementX509.is_valid|handler",
              where=fn.loc(), message="x509.is_valid does not map exceptions (e.g. InvalidSignature) to False")
    _purity(run, fn, set(), "x509.is_valid", "R3")
    gp = P.method(X, "get_pubkey")
    gg = A.cfg(gp, X)
    for r in [n for n in A.own_nodes(gp) if isinstance(n, ast.Return)]:
        for rn in gg.nodes_of(r):
            ok = any(f.kind == "call" and f.pol and call_name(f.expr) == "isinstance"
                     and canon_text(run, gp, X, norm(f.expr.args[1])) == "ec.SECP256R1" for f in F.local(gp, X, rn))
            run.check("R3", ok, "x509.get_pubkey only for SECP256R1 keys", key="HSMCertificateV2ElementX509.get_pubkey|curve",
                      where=gp.loc(r), message="x509.get_pubkey returns a key without checking the curve is NIST P-256")
            got = {_strip(v) for v in expansions(run, PV, gp, X, r.value, rn)}
            want = _strip(canon_text(run, gp, X, "ecdsa.VerifyingKey.from_string(self.certificate.public_key().public_bytes(Encoding.X962, "
                                     "PublicFormat.CompressedPoint), ecdsa.NIST256p)"))
            run.check("R3", got == {want}, "x509.get_pubkey is the certificate's own key",
                      key="HSMCertificateV2ElementX509.get_pubkey|expr", where=gp.loc(r),
                      message=f"x509.get_pubkey returns {sorted(got)[:1]}")
    cp = P.method(X, "certificate")
    loads = [n for n in A.own_nodes(cp) if isinstance(n, ast.Call) and call_name(n) == "load_pem_x509_certificate"]
    gc_ = A.cfg(cp, X)
    src_ = {_strip(v) for ld in loads for ln in gc_.nodes_of(ld) for v in expansions(run, PV, cp, X, ld.args[0], ln)} if loads and loads[0].args else set()
    run.check("R3", len(loads) == 1 and src_ == {_strip(canon_text(run, cp, X, "(self.HEADER_BEGIN + self.message + self.HEADER_END).encode()"))},
              "x509.certificate parses the element's own message", key="HSMCertificateV2ElementX509.certificate|source",
              where=cp.loc(), message="x509.certificate is not parsed from the element's message")


def _values(run, PV, Q, K):
    P, A = run.P, run.A
    run.rule("R4", "The valid result of a quote is {'sgx_quote': SgxQuote(signed bytes), 'message': custom data hex}; "
             "custom_data property is the stored bytes' hex.")
    gv = P.method(Q, "get_value")
    rr = [n for n in A.own_nodes(gv) if isinstance(n, ast.Return)]
    ok = len(rr) == 1 and isinstance(rr[0].value, ast.Dict) and \
        {norm(k): norm(v) for k, v in zip(rr[0].value.keys, rr[0].value.values)} == \
        {"'sgx_quote'": "self.message", "'message'": "self.custom_data"}
    run.check("R4", ok, "quote value carries the signed quote and custom data", key="SGXQuote.get_value|expr",
              where=gv.loc(), message="sgx_quote.get_value changed")
    cd = P.method(Q, "custom_data")
    rr = [n for n in A.own_nodes(cd) if isinstance(n, ast.Return)]
    run.check("R4", len(rr) == 1 and norm(rr[0].value) == "self._custom_data.hex()", "custom_data is the stored bytes",
              key="SGXQuote.custom_data|getter", where=cd.loc(), message="sgx_quote.custom_data changed")


def _layout(run):
    run.rule("R5", "Struct layouts folded from the CStruct specifications equal Intel's: sgx_report_body_t = 384 "
             "bytes with report_data at offset 320 (64 bytes); sgx_quote_t = 432 bytes with report_body at 48; "
             "signature and key 64 bytes; sgx_quote_auth_data_t = 64+64+384+64.")
    t = struct_table(run)
    want = [("sgx_report_body_t", 384, {"report_data": (320, 64), "mrenclave": (64, 32), "mrsigner": (128, 32)}),
            ("sgx_report_data_t", 64, {"field": (0, 64)}),
            ("sgx_quote_t", 432, {"report_body": (48, 384)}),
            ("sgx_ecdsa256_signature_t", 64, {"r": (0, 32), "s": (32, 32)}),
            ("sgx_ecdsa256_key_t", 64, {"x": (0, 32), "y": (32, 32)}),
            ("sgx_quote_auth_data_t", 576, {"signature": (0, 64), "attestation_key": (64, 64),
                                            "qe_report_body": (128, 384), "qe_report_body_signature": (512, 64)}),
            ("sgx_attributes_t", 16, {}), ("sgx_quote_tail_t", 4, {"signature_len": (0, 4)})]
    for tn, size, fields in want:
        run.require(tn in t, f"CStruct `{tn}` vanished")
        sz, fm, ci = t[tn]
        run.check("R5", sz == size, f"sizeof({tn}) == {size}", key=f"cstruct|{tn}|size", where=ci.module.relpath,
                  message=f"{ci.name}: sizeof({tn}) folds to {sz}, Intel's layout has {size}: fields after the "
                          "change move (report_data would be read at the wrong offset)")
        for f, (off, fs) in fields.items():
            run.check("R5", fm.get(f) == (off, fs), f"{tn}.{f} at {off} (+{fs})", key=f"cstruct|{tn}.{f}|offset",
                      where=ci.module.relpath, message=f"{ci.name}: {tn}.{f} is at {fm.get(f)}, expected ({off}, {fs})")
