"""PROV - value provenance: reaching definitions on the CFG and expansion of
an expression into construction terms (the expression with every local name
replaced by the expression(s) that define it at that point)."""
import ast
import copy
from .model import AnalysisError, norm
from .cfg import walk_no_nested


class _Def:
    __slots__ = ("kind", "node", "value", "cnode")

    def __init__(self, kind, node, value, cnode):
        self.kind, self.node, self.value, self.cnode = kind, node, value, cnode


class Prov:
    def __init__(self, A, max_variants=24):
        self.A = A
        self._defs = {}
        self._stack = set()
        self.max_variants = max_variants

    # -- definitions ---------------------------------------------------------
    def defs(self, fn, sc):
        """{name: [_Def]} for local names of fn."""
        key = (fn.qualname, sc.qualname if sc else None)
        if key in self._defs:
            return self._defs[key]
        g = self.A.cfg(fn, sc)
        out = {}

        def add(name, kind, node, value):
            for cn in g.nodes_of(node):
                out.setdefault(name, []).append(_Def(kind, node, value, cn))
        for n in self.A.own_nodes(fn):
            if isinstance(n, ast.Assign):
                for t in n.targets:
                    self._targets(t, n, n.value, add)
            elif isinstance(n, ast.AnnAssign) and n.value is not None and isinstance(n.target, ast.Name):
                add(n.target.id, "assign", n, n.value)
            elif isinstance(n, ast.AugAssign) and isinstance(n.target, ast.Name):
                add(n.target.id, "aug", n, n)
            elif isinstance(n, ast.Expr) and isinstance(n.value, ast.Call) and isinstance(n.value.func, ast.Attribute) \
                    and isinstance(n.value.func.value, ast.Name) and n.value.func.attr in ("append", "extend", "update") \
                    and len(n.value.args) == 1 and not n.value.keywords:
                # xs.append(v)  ==  xs += [v] ;  xs.extend(ys)  ==  xs += ys ;  h.update(b)  ==  h += b  (stream fed to a hash object)
                v = n.value.args[0]
                rhs = ast.List(elts=[v], ctx=ast.Load()) if n.value.func.attr == "append" else v
                syn = ast.AugAssign(target=ast.Name(id=n.value.func.value.id, ctx=ast.Store()), op=ast.Add(), value=rhs)
                ast.copy_location(syn, n)
                ast.fix_missing_locations(syn)
                for cn in g.nodes_of(n):
                    out.setdefault(n.value.func.value.id, []).append(_Def("aug", syn, syn, cn))
            elif isinstance(n, (ast.For, ast.AsyncFor)):
                self._for_targets(n.target, n, add)
            elif isinstance(n, ast.withitem) and isinstance(n.optional_vars, ast.Name):
                add(n.optional_vars.id, "with", n.context_expr, n.context_expr)
            elif isinstance(n, ast.ExceptHandler) and n.name:
                add(n.name, "except", n, None)
        self._defs[key] = out
        return out

    def _targets(self, t, stmt, value, add):
        if isinstance(t, ast.Name):
            add(t.id, "assign", stmt, value)
        elif isinstance(t, (ast.Tuple, ast.List)):
            for i, e in enumerate(t.elts):
                if isinstance(e, ast.Name):
                    sub = ast.Subscript(value=value, slice=ast.Constant(value=i), ctx=ast.Load())
                    add(e.id, "assign", stmt, sub)

    def _for_targets(self, t, loop, add):
        it = loop.iter
        if isinstance(t, ast.Name):
            add(t.id, "for", loop.iter, ast.Call(func=ast.Name(id="ELEM", ctx=ast.Load()), args=[it], keywords=[]))
        elif isinstance(t, (ast.Tuple, ast.List)):
            for i, e in enumerate(t.elts):
                if isinstance(e, ast.Name):
                    add(e.id, "for", loop.iter,
                        ast.Call(func=ast.Name(id=f"ELEM{i}", ctx=ast.Load()), args=[it], keywords=[]))

    def reaching(self, fn, sc, name, use_node):
        """Definitions of `name` that can reach CFG node use_node."""
        g = self.A.cfg(fn, sc)
        ds = self.defs(fn, sc).get(name, [])
        dnodes = {d.cnode for d in ds}
        out = []
        for d in ds:
            # d reaches use if there is a path d -> use that passes no other def of name
            others = dnodes - {d.cnode}
            starts = [s for s in g.succ[d.cnode]]
            seen = set()
            todo = [s for s in starts if s not in others or s is use_node]
            hit = False
            while todo:
                n = todo.pop()
                if n is use_node:
                    hit = True
                    break
                if n in seen or n in others:
                    continue
                seen.add(n)
                todo.extend(g.succ[n])
            if hit:
                out.append(d)
        # a parameter value reaches if some path entry -> use avoids all defs
        if name in self._params(fn):
            if g.exists_path(g.entry, use_node, avoid=dnodes - {use_node}):
                out.append(_Def("param", None, None, g.entry))
        return out

    @staticmethod
    def _params(fn):
        if isinstance(fn.node, ast.Lambda):
            a = fn.node.args
        else:
            a = fn.node.args
        return [x.arg for x in a.posonlyargs + a.args + a.kwonlyargs]

    # -- expansion --------------------------------------------------------------
    def expand_consistent(self, fn, sc, expr, use_node, stop=()):
        """Like expand(), but a name with several reaching definitions is
        resolved to the *same* definition everywhere inside one variant
        (path-consistent variants instead of the free product)."""
        multi = {}
        self._discover(fn, sc, expr, use_node, stop, multi, set())
        names = sorted(multi)
        combos = [{}]
        for nm in names:
            combos = [dict(c, **{nm: d}) for c in combos for d in sorted(multi[nm])]
            if len(combos) > 64:
                raise AnalysisError(f"{fn.qualname}: provenance choices exceed bound (UNDECIDED)")
        out = set()
        for c in combos:
            self._choice = c
            try:
                out |= self.expand(fn, sc, expr, use_node, 0, stop)
            finally:
                self._choice = None
        return {_reparse(x) for x in out}

    _multi = None
    _choice = None

    def _aug_value(self, fn, sc, nm, d, depth, stop):
        """Value of `nm` after the augmented assignment d: <value before> op <increment>; inside a loop the
        increment is REPEATed over the value that entered the loop.  Chains of augmented assignments are followed."""
        key = (fn.qualname, nm, d.cnode.id, "aug")
        if key in self._stack or depth > 40:
            return {nm}
        self._stack.add(key)
        try:
            vals = self.expand(fn, sc, d.node.value, d.cnode, depth + 1, stop)
            op = type(d.node.op).__name__
            sym = {"Add": "+", "Sub": "-", "Mult": "*", "BitOr": "|"}.get(op, op)
            looped = self.A.cfg(fn, sc).in_loop(d.cnode)
            pv = set()
            for r in self.reaching(fn, sc, nm, d.cnode):
                if r.cnode is d.cnode:
                    continue            # its own loop-carried value: covered by REPEAT
                if r.kind == "aug":
                    if looped and self.A.cfg(fn, sc).in_loop(r.cnode):
                        continue        # another accumulation step of the same loop
                    pv |= self._aug_value(fn, sc, nm, r, depth + 1, stop)
                elif r.kind == "param" or r.value is None:
                    pv.add(nm)
                else:
                    pv |= {f"({x})" for x in self.expand(fn, sc, r.value, r.cnode, depth + 1, stop)}
            out = set()
            for p in pv or {nm}:
                for v in vals:
                    out.add(f"({p} {sym} REPEAT({v}))" if looped else f"({p} {sym} {v})")
            return out
        finally:
            self._stack.discard(key)

    def _discover(self, fn, sc, expr, use_node, stop, multi, seen):
        """Names with several reaching definitions anywhere in the expansion of expr."""
        local = self.defs(fn, sc)
        for n in walk_no_nested(expr):
            if not (isinstance(n, ast.Name) and isinstance(n.ctx, ast.Load)):
                continue
            nm = n.id
            if nm in stop or nm not in local:
                continue
            key = (nm, use_node.id)
            if key in seen:
                continue
            seen.add(key)
            rds = self.reaching(fn, sc, nm, use_node)
            real = [d for d in rds if not (d.cnode is use_node and d.kind == "assign")]
            if len(real) > 1 and not any(d.kind == "aug" for d in real):
                multi.setdefault(nm, set()).update(d.cnode.id for d in real)
            for d in rds:
                if d.kind == "aug":
                    self._discover(fn, sc, d.node.value, d.cnode, stop, multi, seen)
                elif d.value is not None and d.kind != "param":
                    self._discover(fn, sc, d.value, d.cnode, stop, multi, seen)

    _CURSOR = ("read", "readline", "readinto", "read1", "seek", "tell")

    def _refuse_cursor(self, fn, local, value):
        """A value read from a local stream that is consumed piecewise (r.read(n) / r.seek(..), or several reads): what a read returns depends on
        the reads before it, which an expression that merely names the call cannot say - expansion through it is refused (UNDECIDED)."""
        for c in ast.walk(value):
            if isinstance(c, ast.Call) and isinstance(c.func, ast.Attribute) and c.func.attr in self._CURSOR and isinstance(c.func.value, ast.Name) \
                    and c.func.value.id in local:
                r = c.func.value.id
                calls = [x for x in ast.walk(fn.node) if isinstance(x, ast.Call) and isinstance(x.func, ast.Attribute) and x.func.attr in self._CURSOR
                         and isinstance(x.func.value, ast.Name) and x.func.value.id == r]
                if len(calls) > 1 or any(x.args or x.keywords for x in calls if x.func.attr != "read") or any(x.func.attr == "seek" for x in calls) \
                        or any((x.args and not (isinstance(x.args[0], ast.Constant) and x.args[0].value in (None, -1))) for x in calls if x.func.attr == "read"):
                    raise AnalysisError(f"{fn.qualname}: `{r}` is a stream consumed piecewise ({len(calls)} read/seek calls); the value of "
                                        f"`{norm(c)[:40]}` depends on the reads before it (idiom not understood, UNDECIDED)")

    def expand(self, fn, sc, expr, use_node, depth=0, stop=()):
        """Set of normalised strings: `expr` with local names replaced by the
        expressions defining them at use_node (recursively).  Names in `stop`
        and parameters stay as they are."""
        if depth > 40:
            raise AnalysisError(f"{fn.qualname}: provenance expansion too deep (UNDECIDED)")
        names = []
        for n in walk_no_nested(expr):
            if isinstance(n, ast.Name) and isinstance(n.ctx, ast.Load) and n.id not in names:
                names.append(n.id)
        local = self.defs(fn, sc)
        subst = {}
        for nm in names:
            if nm in stop or nm not in local:
                continue
            rds = self.reaching(fn, sc, nm, use_node)
            if not rds:
                continue
            real = [d for d in rds if not (d.cnode is use_node and d.kind == "assign")]
            if len(real) > 1 and not any(d.kind == "aug" for d in real):
                ids = {d.cnode.id for d in real}
                if self._multi is not None:
                    self._multi.setdefault(nm, set()).update(ids)
                if self._choice is not None and nm in self._choice and self._choice[nm] in ids:
                    rds = [d for d in rds if d.cnode.id == self._choice[nm] or d not in real]
            alts = set()
            for d in rds:
                if d.kind == "param":
                    alts.add(nm)
                elif d.kind == "aug":
                    alts |= self._aug_value(fn, sc, nm, d, depth, stop)
                elif d.kind == "except" or d.value is None:
                    alts.add(nm)
                else:
                    lead, rest = _leading_self(d.value, nm) if d.kind == "assign" else (False, None)
                    if lead and d.cnode is not use_node:
                        prevs = [r for r in self.reaching(fn, sc, nm, d.cnode) if r.cnode is not d.cnode]
                        pv = set()
                        for r in prevs:
                            if r.kind == "param" or r.value is None:
                                pv.add(nm)
                            else:
                                pv |= {f"({x})" for x in self.expand(fn, sc, r.value, r.cnode, depth + 1, stop)}
                        for p in pv or {nm}:
                            for v in self.expand(fn, sc, rest, d.cnode, depth + 1, stop):
                                alts.add(f"({p} + REPEAT({v}))")
                        continue
                    if d.cnode is use_node and d.kind == "assign":
                        # x = f(x): the use refers to the previous value
                        prevs = [r for r in self.reaching(fn, sc, nm, d.cnode) if r.cnode is not d.cnode]
                        for r in prevs:
                            if r.kind == "param":
                                alts.add(nm)
                            elif r.value is not None and r.kind != "aug":
                                alts |= {f"({x})" for x in self.expand(fn, sc, r.value, r.cnode, depth + 1, stop)}
                        if not prevs:
                            alts.add(nm)
                        continue
                    self._refuse_cursor(fn, local, d.value)
                    key = (fn.qualname, nm, d.cnode.id)
                    if key in self._stack:
                        alts.add(f"LOOP({nm})")      # loop-carried value
                        continue
                    self._stack.add(key)
                    try:
                        for x in self.expand(fn, sc, d.value, d.cnode, depth + 1, stop):
                            alts.add(f"({x})" if not _atomic(x) else x)
                    finally:
                        self._stack.discard(key)
            if len(alts) > self.max_variants:
                raise AnalysisError(f"{fn.qualname}: too many definitions of `{nm}` (UNDECIDED)")
            subst[nm] = sorted(alts)
        outs = [expr]
        results = set()
        # cartesian product over substituted names
        combos = [{}]
        for nm, alts in subst.items():
            combos = [dict(c, **{nm: a}) for c in combos for a in alts]
            if len(combos) > self.max_variants:
                raise AnalysisError(f"{fn.qualname}: provenance variants exceed bound (UNDECIDED)")
        for c in combos:
            results.add(_substitute(expr, c))
        return results


def _leading_self(value, name):
    """value == name + a + b ...  ->  (True, a + b ...)"""
    if not (isinstance(value, ast.BinOp) and isinstance(value.op, ast.Add)):
        return False, None
    leaves = []

    def walk(x):
        if isinstance(x, ast.BinOp) and isinstance(x.op, ast.Add):
            walk(x.left)
            walk(x.right)
        else:
            leaves.append(x)
    walk(value)
    if isinstance(leaves[0], ast.Name) and leaves[0].id == name and len(leaves) > 1:
        rest = leaves[1]
        for l in leaves[2:]:
            rest = ast.BinOp(left=rest, op=ast.Add(), right=l)
        return True, rest
    return False, None


def _atomic(s):
    return s.replace("_", "").replace(".", "").isalnum()


class _Sub(ast.NodeTransformer):
    def __init__(self, mapping):
        self.m = mapping

    def visit_Name(self, node):
        if isinstance(node.ctx, ast.Load) and node.id in self.m:
            return ast.Name(id="\x00" + node.id + "\x00", ctx=ast.Load())
        return node

    def visit_Lambda(self, node):
        return node


def _substitute(expr, mapping):
    e = _Sub(mapping).visit(copy.deepcopy(expr))
    s = ast.unparse(e)
    for k, v in mapping.items():
        s = s.replace("\x00" + k + "\x00", v)
    if ")[" in s or "][" in s or "ELEM((" in s or "ELEM([" in s:
        # (a, b)[1] -> b : constant index into a display (tuple-unpacking of unrolled loops / inlined helpers);
        # ELEM(<comprehension>) -> its element expression
        from .decide import simplify_text
        s = simplify_text(s)
    return s


def _reparse(s):
    """drop redundant parentheses"""
    try:
        return ast.unparse(ast.parse(s, mode="eval").body)
    except SyntaxError:
        return s
