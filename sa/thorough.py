"""Thorough tier: (i) independent re-derivation of every dominance verdict used
by the quick rules, by removal-reachability and by explicit enumeration of paths
(loops taken up to twice); (ii) armed-ness battery - the seeded breaking changes
kept under /verif/seeded and the behaviour-preserving twins under
/verif/selftest/benign are applied to a scratch copy of /repo's *current working
tree* (outside /repo and /verif, removed afterwards) and the check must fire on
the former and stay silent on the latter."""
import json
import os
import shutil
import subprocess
import tempfile
from .model import AnalysisError
from .cfg import CFG

VERIF = os.path.dirname(os.path.dirname(os.path.abspath(__file__)))


class DomRecorder:
    """Wraps CFG.dominators so that every (graph, node) whose dominator set was
    consulted during the quick rules is remembered."""

    def __init__(self):
        self.queries = []
        self._orig = CFG.dominators

    def __enter__(self):
        rec = self

        def dominators(g, node):
            res = rec._orig(g, node)
            rec.queries.append((g, node))
            return res
        CFG.dominators = dominators
        return self

    def __exit__(self, *a):
        CFG.dominators = self._orig


def crosscheck(run, recorder, max_graph_paths=4000):
    """Re-derive each consulted dominator set two other ways."""
    seen = set()
    n_nodes = n_pairs = n_paths = n_enum = 0
    for g, node in recorder.queries:
        key = (id(g), node.id)
        if key in seen:
            continue
        seen.add(key)
        doms = recorder._orig(g, node)
        if not doms:
            continue
        n_nodes += 1
        domset = set(doms)
        # (a) removal reachability: d dominates node <=> node unreachable once d is removed
        for d in g.nodes:
            if d is node or d not in g.live_nodes():
                continue
            claimed = d in domset
            actual = node not in g.reachable(g.entry, avoid={d}) if d is not g.entry else True
            n_pairs += 1
            if claimed != actual:
                raise AnalysisError(f"dominator cross-check failed in {g.name}: {d!r} vs {node!r} "
                                    f"(idom says {claimed}, removal-reachability says {actual})")
        # (b) explicit path enumeration (each node visited at most twice), bounded
        try:
            paths = g.enumerate_paths(g.entry, [node], max_visits=2, limit=max_graph_paths)
        except AnalysisError:
            continue
        n_enum += 1
        n_paths += len(paths)
        if paths:
            common = set(paths[0])
            for p in paths[1:]:
                common &= set(p)
            if not domset <= common:
                raise AnalysisError(f"dominator cross-check failed in {g.name}: path enumeration disagrees at {node!r}")
    run.extra["dominance_crosscheck"] = {
        "nodes_rechecked": n_nodes, "node_pairs_by_removal_reachability": n_pairs,
        "nodes_rechecked_by_path_enumeration": n_enum, "paths_enumerated": n_paths}
    run.ok("T1", f"dominator sets of {n_nodes} consulted nodes re-derived by removal-reachability ({n_pairs} pairs) and by "
                 f"enumeration of {n_paths} paths")


def _scratch_copy(repo):
    d = tempfile.mkdtemp(prefix="powhsm-verif-scratch-", dir=os.environ.get("TMPDIR", "/tmp"))
    for sub in ("middleware", "docs", os.path.join("firmware", "src")):
        src = os.path.join(repo, sub)
        if os.path.isdir(src):
            shutil.copytree(src, os.path.join(d, sub), symlinks=True, ignore=shutil.ignore_patterns("__pycache__", "*.pyc", "tests"))
    return d


def battery(run, repo):
    prop = run.prop
    items = []
    sd = os.path.join(VERIF, "seeded")
    for name in sorted(os.listdir(sd)) if os.path.isdir(sd) else []:
        p = os.path.join(sd, name)
        if not os.path.isdir(p):
            continue
        meta = os.path.join(p, "meta.json")
        det = {}
        if os.path.exists(meta):
            det = json.load(open(meta)).get("detected_by") or {}
        if name.startswith(prop + "-") or prop in det:
            patch = os.path.join(p, "patch.rebased.diff")
            if not os.path.exists(patch):
                patch = os.path.join(p, "patch.diff")
            items.append(("breaking", name, patch))
    bd = os.path.join(VERIF, "selftest", "benign")
    for name in sorted(os.listdir(bd)) if os.path.isdir(bd) else []:
        if name.endswith(".diff"):
            items.append(("benign", name[:-5], os.path.join(bd, name)))
    res = {"breaking_fired": 0, "breaking_total": 0, "benign_silent": 0, "benign_total": 0, "skipped": [], "details": []}

    def one(item):
        kind, name, patch = item
        d = _scratch_copy(repo)
        try:
            r = subprocess.run(["git", "apply", "--whitespace=nowarn", patch], cwd=d, capture_output=True, text=True)
            if r.returncode != 0:
                return kind, name, None, ""
            env = dict(os.environ, VERIF_SCRATCH_EVIDENCE=os.path.join(d, ".verif-evidence"))
            o = subprocess.run(["/venv/bin/python", os.path.join(VERIF, "check"), prop, "--repo", d, "--quiet", "--tier", "quick"],
                               capture_output=True, text=True, env=env)
            first = next((l.strip()[:160] for l in o.stdout.splitlines() if l.strip().startswith("rule ") or "ANALYSIS-ERROR" in l), "")
            return kind, name, o.returncode, first
        finally:
            shutil.rmtree(d, ignore_errors=True)
    import concurrent.futures as cf
    with cf.ThreadPoolExecutor(max_workers=min(14, (os.cpu_count() or 4))) as ex:
        results = list(ex.map(one, items))
    failures = []
    for kind, name, rc, first in results:
        if rc is None:
            res["skipped"].append(f"{name}: patch does not apply to the tree under test")
            continue
        res["details"].append({"variant": name, "kind": kind, "rc": rc, "first": first})
        if kind == "breaking":
            res["breaking_total"] += 1
            if rc == 1:
                res["breaking_fired"] += 1
            else:
                failures.append(f"the check did not fire (rc={rc}) on seeded change {name}")
        else:
            res["benign_total"] += 1
            if rc == 0:
                res["benign_silent"] += 1
            elif rc == 1:
                failures.append(f"false alarm on behaviour-preserving variant {name}: {first}")
            else:
                res["skipped"].append(f"{name}: analysis undecided on this refactoring (exit 2)")
    run.extra["battery"] = res
    if failures:
        raise AnalysisError("armed-ness battery: " + "; ".join(failures[:3]))
    run.ok("T2", f"battery: {res['breaking_fired']}/{res['breaking_total']} breaking variants flagged, "
                 f"{res['benign_silent']}/{res['benign_total']} behaviour-preserving variants silent, {len(res['skipped'])} skipped")
