"""Run context: obligations, violations, known findings, evidence."""
import json
import os
import re
import time
from .model import AnalysisError, norm

VERIF = os.path.dirname(os.path.dirname(os.path.abspath(__file__)))


class Violation:
    def __init__(self, rule, key, where, message, witness=None):
        self.rule = rule
        self.key = key          # stable identity: rule|function|construct|fact
        self.where = where      # file:line
        self.message = message
        self.witness = witness
        self.known = None

    def to_json(self):
        return {"rule": self.rule, "key": self.key, "where": self.where,
                "message": self.message, "witness": self.witness}


def squash(s):
    return re.sub(r"\s+", " ", s).strip()


class Run:
    def __init__(self, prop, tier, program, analysis, seed=0, quiet=False):
        self.prop = prop
        self.tier = tier
        self.P = program
        self.A = analysis
        self.seed = seed
        self.quiet = quiet
        self.t0 = time.time()
        self.obligations = 0
        self.discharged = 0
        self.per_rule = {}
        self.samples = []
        self.violations = []
        self.notes = []
        self.rules_text = {}
        self.assumptions = []
        self.extra = {}
        self.undecided = []

    # -- recording -----------------------------------------------------------
    rid_prefix = ""

    def rule(self, rid, text):
        rid = self.rid_prefix + rid
        self.rules_text[rid] = squash(text)
        self.per_rule.setdefault(rid, [0, 0])

    def ok(self, rid, desc, where=None):
        rid = self.rid_prefix + rid
        self.obligations += 1
        self.discharged += 1
        r = self.per_rule.setdefault(rid, [0, 0])
        r[0] += 1
        r[1] += 1
        if len([s for s in self.samples if s.get("rule") == rid]) < 3:
            self.samples.append({"rule": rid, "obligation": squash(desc)[:300],
                                 "where": where, "verdict": "holds"})

    def fail(self, rid, key, where, message, witness=None):
        rid = self.rid_prefix + rid
        self.obligations += 1
        r = self.per_rule.setdefault(rid, [0, 0])
        r[0] += 1
        v = Violation(rid, f"{rid}|{squash(key)}", where, squash(message), witness)
        # de-duplicate by key
        if not any(x.key == v.key for x in self.violations):
            self.violations.append(v)
        return v

    def check(self, rid, cond, desc, key=None, where=None, message=None, witness=None):
        if cond:
            self.ok(rid, desc, where)
        else:
            self.fail(rid, key or desc, where, message or f"obligation not met: {desc}", witness)
        return bool(cond)

    def floor(self, rid, what, found, minimum):
        rid = self.rid_prefix + rid
        if found < minimum:
            raise AnalysisError(
                f"{rid}: only {found} instance(s) of {what} found, floor is {minimum} "
                "(anchor vanished or idiom not recognised)")
        self.extra.setdefault("floors", {})[f"{rid}:{what}"] = {"found": found, "floor": minimum}

    def require(self, cond, msg):
        if not cond:
            raise AnalysisError(msg)

    def note(self, msg):
        self.notes.append(squash(msg))

    def loc(self, fn, node=None):
        return fn.loc(node)

    # -- finishing -------------------------------------------------------------
    def load_known(self):
        path = os.path.join(VERIF, "known_findings.json")
        if not os.path.exists(path):
            return []
        with open(path) as f:
            data = json.load(f)
        return [e for e in data.get("findings", []) if e.get("property") == self.prop]

    def finish(self, level_explanation, technique):
        known = self.load_known()
        active = {e["key"]: e for e in known if e.get("status") == "known"}
        new = []
        for v in self.violations:
            if v.key in active:
                v.known = active[v.key]
                print(f"KNOWN-FINDING: property={self.prop} {active[v.key].get('id', '')} "
                      f"{v.where} {v.message}")
            else:
                new.append(v)
        stale = [k for k in active if not any(v.key == k for v in self.violations)]
        replay_dir = os.path.join(VERIF, "evidence", "replay")
        if os.path.realpath(getattr(self, "repo", "/repo")) != "/repo":
            replay_dir = os.path.join(os.environ.get("VERIF_SCRATCH_EVIDENCE",
                                                     "/tmp/verif-scratch-evidence"), "replay")
        os.makedirs(replay_dir, exist_ok=True)
        for old in os.listdir(replay_dir):
            if old.startswith(self.prop + "-"):
                try:
                    os.remove(os.path.join(replay_dir, old))
                except OSError:
                    pass
        for i, v in enumerate(new, 1):
            rp = os.path.join(replay_dir, f"{self.prop}-{i}.json")
            with open(rp, "w") as f:
                json.dump({"property": self.prop, **v.to_json()}, f, indent=1)
            print(f"VIOLATION property={self.prop} replay={rp}")
            print(f"  rule {v.rule} at {v.where}: {v.message}")
            if v.witness:
                print(f"  witness: {v.witness}")
        wall = time.time() - self.t0
        n_known = len(self.violations) - len(new)
        ev = {
            "property_id": self.prop,
            "tier": self.tier,
            "seed": self.seed,
            "level": "other",
            "coverage": {
                "explanation": squash(level_explanation),
                "technique": technique,
                "obligations": self.obligations,
                "discharged": self.discharged,
                "known_findings_reported": n_known,
                "new_violations": len(new),
                "per_rule": {k: {"obligations": a, "discharged": b, "rule": self.rules_text.get(k, "")}
                             for k, (a, b) in sorted(self.per_rule.items())},
                "analysed": self.P.stats(),
                "samples": self.samples[:40] or [{"note": "no obligations"}],
                "violations": [dict(v.to_json(), known=bool(v.known)) for v in self.violations],
                "stale_known_findings": stale,
                "notes": self.notes,
                **self.extra,
            },
            "assumptions": self.assumptions,
            "wall_s": round(wall, 3),
            "violations": len(new),
        }
        evdir = os.path.join(VERIF, "evidence")
        if os.path.realpath(getattr(self, "repo", "/repo")) != "/repo":
            # analysing a scratch copy (seeded change / self-test): never
            # overwrite the evidence of the real tree
            evdir = os.environ.get("VERIF_SCRATCH_EVIDENCE", "/tmp/verif-scratch-evidence")
        os.makedirs(evdir, exist_ok=True)
        with open(os.path.join(evdir, f"{self.prop}.json"), "w") as f:
            json.dump(ev, f, indent=1, default=str)
        if not self.quiet:
            st = self.P.stats()
            print(f"[{self.prop}] tier={self.tier} modules={st['modules']} "
                  f"functions={st['functions']} calls={st['call_expressions']} "
                  f"obligations={self.obligations} discharged={self.discharged} "
                  f"known={n_known} new={len(new)} wall={wall:.2f}s")
            for k, (a, b) in sorted(self.per_rule.items()):
                print(f"   {k}: {b}/{a}")
            for s in stale:
                print(f"   note: known finding no longer reproduced: {s}")
        return 1 if new else 0
