"""DECIDE - predicate-abstraction walk of an acyclic region of one function's CFG.

The region (e.g. one iteration of a loop body, or a straight-line prologue) is
walked along its *normal* edges while a symbolic store is kept:

  * a local assigned a call-free expression is substituted into later uses;
  * a local assigned anything else is an opaque symbol bound to that value;
  * `x += e` makes x stand for `x + e` (x on the right = value at region entry);
  * each atomic branch condition (after substitution) is handed to the rule's
    atom recogniser; a recognised atom that the path has not fixed yet forks the
    walk (one leaf per truth value), an unrecognised condition forks on its own
    normalised text, a condition already fixed on the path is followed.

The result is a decision tree: leaves (return / raise / region exit / loop back)
with the partial valuation of atoms that leads there, the store and the ordered
effects met on the way.  A rule then compares every completion of every leaf's
valuation with the outcome the specification prescribes for it.  Nothing is
executed and no solver is involved: atoms are uninterpreted booleans and the
table is finite.  The shape of the code (flag variables, while True / continue,
early returns, split or merged conditions, temporaries) does not matter."""
import ast
import copy
from .model import AnalysisError, norm
from .normalize import InlineJump

_PURE_CALLS = {"len", "bytes", "int", "hex", "min", "max", "bool", "abs", "list", "tuple", "type", "isinstance", "issubclass", "str", "repr",
               "chr", "ord", "sorted", "reversed", "range", "enumerate", "zip", "set", "frozenset", "dict", "any", "all", "sum", "hasattr", "callable",
               "bytearray", "divmod", "round"}


class Leaf:
    __slots__ = ("kind", "node", "env", "pc", "effects", "bind", "path", "value")

    def __init__(self, kind, node, env, pc, effects, bind, path, value=None):
        self.kind, self.node, self.env, self.pc = kind, node, env, pc
        self.effects, self.bind, self.path, self.value = effects, bind, path, value

    def __repr__(self):
        return f"<Leaf {self.kind} @{self.node.lineno} pc={self.pc}>"

    def deep(self, expr, depth=8, stop=()):
        """expr with the store *and* the opaque bindings substituted (for display / comparison); names in `stop` are kept."""
        e = subst(expr, {k: v for k, v in self.env.items() if k not in stop})
        for _ in range(depth):
            names = {n.id for n in ast.walk(e) if isinstance(n, ast.Name) and isinstance(n.ctx, ast.Load)}
            hit = {k: v for k, v in self.bind.items() if k in names and k not in stop}
            if not hit:
                break
            e = subst(e, hit)
        return e


class _Fork(Exception):
    def __init__(self, atom):
        self.atom = atom


class _Subst(ast.NodeTransformer):
    def __init__(self, env):
        self.env = env

    def visit_Name(self, node):
        if isinstance(node.ctx, ast.Load) and node.id in self.env:
            return copy.deepcopy(self.env[node.id])
        return node

    def visit_Lambda(self, node):
        return node


def subst(expr, env):
    if not env:
        return expr
    return simplify(_Subst(env).visit(copy.deepcopy(expr)))


class _Simplify(ast.NodeTransformer):
    """(a, b)[1] -> b ;  [a, b][0] -> a   (constant index into a display)"""

    def visit_Subscript(self, node):
        self.generic_visit(node)
        if isinstance(node.value, (ast.Tuple, ast.List)) and isinstance(node.slice, ast.Constant) \
                and isinstance(node.slice.value, int) and not isinstance(node.slice.value, bool) \
                and -len(node.value.elts) <= node.slice.value < len(node.value.elts) \
                and not any(isinstance(x, ast.Starred) for x in node.value.elts):
            return node.value.elts[node.slice.value]
        return node

    def visit_Call(self, node):
        # ELEM(<comprehension E for x in XS>) -> E with x := ELEM(XS)   (iterating a generator / list comprehension)
        self.generic_visit(node)
        if isinstance(node.func, ast.Name) and node.func.id == "ELEM" and len(node.args) == 1 \
                and isinstance(node.args[0], (ast.GeneratorExp, ast.ListComp)) and len(node.args[0].generators) == 1 \
                and not node.args[0].generators[0].ifs:
            from .layout import _subst_target
            gen = node.args[0].generators[0]
            r = _subst_target(node.args[0].elt, gen.target, gen.iter)
            if r is not None:
                return r
        return node


def simplify(expr):
    return _Simplify().visit(expr)


def simplify_text(s):
    try:
        return ast.unparse(simplify(ast.parse(s, mode="eval").body))
    except SyntaxError:
        return s


def is_pure(expr):
    for n in ast.walk(expr):
        if isinstance(n, ast.Call):
            if not (isinstance(n.func, ast.Name) and n.func.id in _PURE_CALLS):
                return False
        if isinstance(n, (ast.Await, ast.Yield, ast.YieldFrom, ast.NamedExpr)):
            return False
    return True


def _none_test(e):
    """`X is None` / `X is not None` decided structurally: X a constant, or a constructor call (never None)."""
    pol = True
    while isinstance(e, ast.UnaryOp) and isinstance(e.op, ast.Not):
        e = e.operand
        pol = not pol
    if isinstance(e, ast.Compare) and len(e.ops) == 1 and isinstance(e.ops[0], (ast.Is, ast.IsNot)):
        a, b = e.left, e.comparators[0]
        if isinstance(a, ast.Constant) and a.value is None:
            a, b = b, a
        if isinstance(b, ast.Constant) and b.value is None:
            is_none = None
            if isinstance(a, ast.Constant):
                is_none = a.value is None
            elif isinstance(a, ast.Call):
                nm = a.func.attr if isinstance(a.func, ast.Attribute) else (a.func.id if isinstance(a.func, ast.Name) else "")
                if nm[:1].isupper() and not nm.isupper():
                    is_none = False        # a constructor call
            elif isinstance(a, (ast.Tuple, ast.List, ast.Dict, ast.JoinedStr)):
                is_none = False
            if is_none is not None:
                r = is_none if isinstance(e.ops[0], ast.Is) else not is_none
                return r if pol else not r
    return None


class Walker:
    def __init__(self, A, fn, sc, atom_of, max_leaves=256, max_steps=4000, follow_exc=False, stop_at_for=False, through_with=False):
        self.through_with = through_with
        self.follow_exc = follow_exc
        self.stop_at_for = stop_at_for    # a `for` head ends the region (leaf kind "stop") instead of being undecidable
        self.A, self.fn, self.sc = A, fn, sc
        self.g = A.cfg(fn, sc)
        self.atom_of = atom_of
        self.max_leaves, self.max_steps = max_leaves, max_steps

    # -- condition evaluation -------------------------------------------------
    def _ev(self, e, pc):
        if isinstance(e, ast.Constant):
            return bool(e.value)
        if isinstance(e, ast.UnaryOp) and isinstance(e.op, ast.Not):
            return not self._ev(e.operand, pc)
        if isinstance(e, ast.BoolOp):
            if isinstance(e.op, ast.And):
                for v in e.values:
                    if not self._ev(v, pc):
                        return False
                return True
            for v in e.values:
                if self._ev(v, pc):
                    return True
            return False
        e2 = e
        if self._bind:
            # structural simplification through opaque bindings, e.g. (True, f(x))[0] -> True
            e2 = e
            for _ in range(6):
                names = {n.id for n in ast.walk(e2) if isinstance(n, ast.Name) and isinstance(n.ctx, ast.Load)}
                hit = {k: v for k, v in self._bind.items() if k in names}
                if not hit:
                    break
                e2 = subst(e2, hit)
            if isinstance(e2, ast.Constant):
                return bool(e2.value)
            v2 = _none_test(e2)
            if v2 is not None:
                return v2
        v1 = _none_test(e)
        if v1 is not None:
            return v1
        if False:
            pass
        a = self.atom_of(e)
        if a is None and self._bind and isinstance(e, ast.Name) and e.id in self._bind:
            # a flag holding the result of a call: recognise the atom on what the flag stands for
            a = self.atom_of(self._bind[e.id])
        if a is None and self._bind and e2 is not e:
            # the condition with the opaque values it mentions spelled out (len(block) with block = rlp.decode(..))
            a = self.atom_of(e2)
        if a is None:
            a = ("?" + norm(e), True)
        name, pol = a
        if name is True or name is False:      # recogniser folded it to a constant
            return bool(name) == pol
        if name not in pc:
            raise _Fork(name)
        return pc[name] == pol

    _bind = None

    def _handlers_after(self, n, _seen=None):
        """Handler (or finally) nodes an exception raised at n may enter (an exception that a try does not
        catch continues to the enclosing one)."""
        out = []
        seen = _seen if _seen is not None else set()
        for s in self.g.succ[n]:
            if s in seen:
                continue
            if s.kind == "dispatch":
                seen.add(s)
                out += [h for h in self.g.succ[s] if h.kind == "handler"]
                out += self._handlers_after(s, seen)
            elif s.kind == "join" and s.note == "finally[raise]":
                out.append(s)
        return out

    def _normal_succ(self, n):
        return [s for s in self.g.succ[n] if not self.g.is_exc_edge(n, s)]

    # -- the walk ---------------------------------------------------------------
    def walk(self, start, stops=(), env=None, pc=None):
        """Leaves reachable from CFG node `start` (exclusive of exception edges).
        `stops`: CFG nodes that end the region (leaf kind 'stop')."""
        g = self.g
        stops = set(stops)
        leaves = []
        todo = [(start, dict(env or {}), dict(pc or {}), [], {}, [], True)]
        steps = 0
        while todo:
            n, env, pc, eff, bind, path, first = todo.pop()
            forked = first == "again"
            first = bool(first)
            while True:
                steps += 1
                if steps > self.max_steps or len(leaves) > self.max_leaves:
                    raise AnalysisError(f"{self.fn.qualname}: decision walk exceeds its bound (UNDECIDED)")
                if (n in stops or (self.stop_at_for and n.kind == "for")) and not first:
                    leaves.append(Leaf("stop", n, env, pc, eff, bind, path))
                    break
                first = False
                if n in path and n.kind not in ("T", "F"):
                    # an inner cycle that is not the region's own back edge
                    raise AnalysisError(f"{self.fn.qualname}: inner loop at line {n.lineno} inside a decision region (UNDECIDED)")
                path = path + [n]
                if n is g.exit:
                    leaves.append(Leaf("exit", n, env, pc, eff, bind, path))
                    break
                if n is g.raise_exit:
                    leaves.append(Leaf("raise", n, env, pc, eff, bind, path))
                    break
                if self.follow_exc and not forked and n.kind in ("stmt", "cond") and n.ast is not None and not isinstance(n.ast, ast.Raise):
                    for h in self._handlers_after(n):
                        todo.append((h, env, pc, eff + [("raised", n.ast, None)], bind, path, True))
                forked = False
                if n.kind == "cond":
                    e = subst(n.ast, env)
                    self._bind = bind
                    try:
                        v = self._ev(e, pc)
                    except _Fork as fk:
                        for val in (False, True):
                            todo.append((n, env, dict(pc, **{fk.atom: val}), eff, bind, path[:-1], "again"))
                        break
                    nxt = [s for s in g.succ[n] if s.kind == ("T" if v else "F") and s.cond is n]
                    if not nxt:
                        raise AnalysisError(f"{self.fn.qualname}: constant condition at line {n.lineno} has no {v} branch (UNDECIDED)")
                    n = nxt[0]
                    continue
                if n.kind == "with" and self.through_with and isinstance(n.ast, (ast.With,)):
                    # `with E as v:` - E is evaluated (an effect), v is bound to an opaque value, the body follows; leaving the body is not modelled as
                    # an event (the context managers the analysed code uses are files, which do not swallow exceptions)
                    env, bind = dict(env), dict(bind)
                    for it_ in n.ast.items:
                        eff = eff + [("with", n.ast, subst(it_.context_expr, env))]
                        if isinstance(it_.optional_vars, ast.Name):
                            env.pop(it_.optional_vars.id, None)
                            bind[it_.optional_vars.id] = subst(it_.context_expr, env)
                    succ = self._normal_succ(n)
                    if len(succ) != 1:
                        raise AnalysisError(f"{self.fn.qualname}: `with` at line {n.lineno} has {len(succ)} normal successors (UNDECIDED)")
                    n = succ[0]
                    continue
                if n.kind in ("for", "with", "dispatch"):
                    raise AnalysisError(f"{self.fn.qualname}: `{n.kind}` at line {n.lineno} inside a decision region (UNDECIDED)")
                if n.kind == "stmt" and n.ast is not None:
                    st = n.ast
                    if isinstance(st, ast.Return):
                        val = subst(st.value, env) if st.value is not None else None
                        leaves.append(Leaf("return", n, env, pc, eff, bind, path, val))
                        break
                    if isinstance(st, ast.Raise):
                        hs = self._handlers_after(n) if self.follow_exc else []
                        if hs:
                            for h in hs:
                                todo.append((h, env, pc, eff + [("raised", st, None)], bind, path, True))
                        else:
                            leaves.append(Leaf("raise", n, env, pc, eff, bind, path, subst(st.exc, env) if st.exc else None))
                        break
                    if n.note == "assert-fail":
                        leaves.append(Leaf("raise", n, env, pc, eff, bind, path))
                        break
                    if isinstance(st, ast.Assign):
                        val = subst(st.value, env)
                        env = dict(env)
                        bind = dict(bind)
                        eff = eff + [("assign", st, val)]
                        # re-binding a name whose current value is tracked and still referred to (by the new value itself - `k = k.tweak(t)` -
                        # or by another tracked value): the old value moves to a fresh version name, so that nothing refers to the wrong `k`
                        tnames = []
                        for t in st.targets:
                            if isinstance(t, ast.Name):
                                tnames.append(t)
                            elif isinstance(t, (ast.Tuple, ast.List)):
                                tnames += [x for x in t.elts if isinstance(x, ast.Name)]
                        for t in tnames:
                            if isinstance(t, ast.Name) and (t.id in env or t.id in bind):
                                def _refs(e, nm=t.id):
                                    return isinstance(e, ast.AST) and any(isinstance(x, ast.Name) and x.id == nm for x in ast.walk(e))
                                import re as _re
                                in_pc = [k_ for k_ in pc if isinstance(k_, str) and k_.startswith("?") and _re.search(rf"\b{_re.escape(t.id)}\b", k_)]
                                if _refs(val) or in_pc or any(_refs(v_) for k_, v_ in list(env.items()) + list(bind.items()) if k_ != t.id):
                                    self._ver = getattr(self, "_ver", 0) + 1
                                    fresh = f"{t.id}__v{self._ver}"
                                    ren = {t.id: ast.Name(id=fresh, ctx=ast.Load())}
                                    val = subst(val, ren)
                                    # what was recorded so far spoke of the old value too
                                    eff = [(k_, s_, subst(v_, ren) if isinstance(v_, ast.AST) else v_) for k_, s_, v_ in eff[:-1]] + [("assign", st, val)]
                                    env = {k_: (subst(v_, ren) if isinstance(v_, ast.AST) else v_) for k_, v_ in env.items()}
                                    bind = {k_: (subst(v_, ren) if isinstance(v_, ast.AST) else v_) for k_, v_ in bind.items()}
                                    if in_pc:
                                        # conditions already decided on this path were about the old value: they follow it to its new name, so that
                                        # the same text met again (about the new value) is a new, undecided condition
                                        pc = dict(pc)
                                        for k_ in in_pc:
                                            try:
                                                nk = "?" + norm(subst(ast.parse(k_[1:], mode="eval").body, ren))
                                            except SyntaxError:
                                                continue
                                            pc[nk] = pc.pop(k_)
                                    if t.id in env:
                                        env[fresh] = env.pop(t.id)
                                    else:
                                        bind[fresh] = bind.pop(t.id)
                        for t in st.targets:
                            if isinstance(t, ast.Name):
                                if is_pure(val):
                                    env[t.id] = val
                                    bind.pop(t.id, None)
                                else:
                                    env.pop(t.id, None)
                                    bind[t.id] = val
                            elif isinstance(t, (ast.Tuple, ast.List)):
                                same = isinstance(val, (ast.Tuple, ast.List)) and len(val.elts) == len(t.elts) and not any(isinstance(e_, ast.Starred) for e_ in val.elts)
                                for i, x in enumerate(t.elts):
                                    if isinstance(x, ast.Name):
                                        env.pop(x.id, None)
                                        bind.pop(x.id, None)
                                        if same:
                                            # a, b = e1, e2: each name stands for its own element (both evaluated against the old store)
                                            if is_pure(val.elts[i]):
                                                env[x.id] = val.elts[i]
                                            else:
                                                bind[x.id] = val.elts[i]
                                        else:
                                            bind[x.id] = ast.Subscript(value=val, slice=ast.Constant(value=i), ctx=ast.Load())
                            else:
                                eff = eff + [("store", st, subst(t, env))]
                    elif isinstance(st, ast.AnnAssign) and st.value is not None and isinstance(st.target, ast.Name):
                        val = subst(st.value, env)
                        env = dict(env)
                        env[st.target.id] = val
                        eff = eff + [("assign", st, val)]
                    elif isinstance(st, ast.AugAssign):
                        val = subst(st.value, env)
                        eff = eff + [("aug", st, val)]
                        if isinstance(st.target, ast.Name):
                            prev = env.get(st.target.id, ast.Name(id=st.target.id, ctx=ast.Load()))
                            env = dict(env)
                            env[st.target.id] = ast.BinOp(left=copy.deepcopy(prev), op=st.op, right=val)
                    elif isinstance(st, ast.Expr):
                        eff = eff + [("expr", st, subst(st.value, env))]
                    elif isinstance(st, (ast.Pass, ast.Break, ast.Continue, ast.Import, ast.ImportFrom, ast.Global, ast.Nonlocal)):
                        pass
                    elif isinstance(st, (ast.FunctionDef, ast.AsyncFunctionDef, ast.ClassDef, InlineJump)):
                        pass
                    elif isinstance(st, ast.Delete):
                        eff = eff + [("delete", st, None)]
                    else:
                        raise AnalysisError(f"{self.fn.qualname}: statement `{norm(st)[:40]}` not modelled in a decision region (UNDECIDED)")
                succ = self._normal_succ(n)
                if len(succ) != 1:
                    if not succ:
                        leaves.append(Leaf("dead", n, env, pc, eff, bind, path))
                        break
                    raise AnalysisError(f"{self.fn.qualname}: node at line {n.lineno} has {len(succ)} normal successors (UNDECIDED)")
                n = succ[0]
        return leaves


def completions(pc, atoms, feasible=None):
    """All total valuations over `atoms` that extend the partial valuation pc."""
    free = [a for a in atoms if a not in pc]
    out = []
    for m in range(1 << len(free)):
        v = {a: pc[a] for a in atoms if a in pc}
        for i, a in enumerate(free):
            v[a] = bool(m >> i & 1)
        if feasible is None or feasible(v):
            out.append(v)
    return out


def cmp_parts(e):
    """Compare with one operator -> (left AST, op symbol, right AST) with `not` folded in; else None."""
    from .query import _NEG, _SYM
    pol = True
    while isinstance(e, ast.UnaryOp) and isinstance(e.op, ast.Not):
        e = e.operand
        pol = not pol
    if isinstance(e, ast.Compare) and len(e.ops) == 1:
        op = type(e.ops[0])
        if not pol:
            op = _NEG[op]
        return e.left, _SYM[op], e.comparators[0]
    return None


def values_at(A, fn, sc, node, expr, atom_of=None):
    """Path-sensitive value set of `expr` at CFG node `node`: the expression with the store of every normal path
    from the function's entry to the node substituted in (opaque bindings included), as normalised strings.
    Infeasible paths whose guards fold to constants are pruned.  Raises AnalysisError when the region has loops."""
    W = Walker(A, fn, sc, atom_of or (lambda e: None))
    g = A.cfg(fn, sc)
    out = set()
    for lf in W.walk(g.entry, stops={node}):
        if lf.kind == "stop":
            out.add(norm(lf.deep(expr)))
    return out


def completed_on_all_paths(A, fn, sc, target, call):
    """Path-sensitive must-precede: on every feasible path (exception paths through handlers included, guards that
    fold to constants pruned) from fn's entry to CFG node `target`, has `call` completed normally?
    -> (True, None) | (False, witness leaf).  Raises AnalysisError when the region has loops."""
    W = Walker(A, fn, sc, lambda e: None, follow_exc=True)
    g = A.cfg(fn, sc)
    for lf in W.walk(g.entry, stops={target}):
        if lf.kind != "stop":
            continue
        done = any(k != "raised" and isinstance(st, ast.AST) and any(x is call for x in ast.walk(st)) for k, st, v in lf.effects)
        if not done:
            return False, lf
    return True, None


def return_values(A, fn, sc, PV=None, stop=()):
    """Set of normalised, fully substituted return expressions of fn over all normal paths (decision walk);
    falls back to flow-based provenance (PV) when the function has loops."""
    g = A.cfg(fn, sc)
    try:
        out = set()
        for lf in Walker(A, fn, sc, lambda e: None).walk(g.entry):
            if lf.kind == "return":
                out.add("None" if lf.value is None else norm(lf.deep(lf.node.ast.value)) if lf.node.ast.value is not None else "None")
        return out
    except AnalysisError:
        if PV is None:
            raise
        out = set()
        for n in A.own_nodes(fn):
            if isinstance(n, ast.Return):
                for rn in g.nodes_of(n):
                    if n.value is None:
                        out.add("None")
                    else:
                        out |= {simplify_text(x) for x in PV.expand_consistent(fn, sc, n.value, rn, stop=stop)}
        return out


def eval_predicate(A, fn, sc, bindings):
    """Value returned by the (loop-free, side-effect-free) function fn when its parameters take the constant values in
    `bindings`: every branch condition must be a closed integer expression (class / module constants are folded).
    -> the returned value, or raises AnalysisError (idiom not understood)."""
    from .canon import ieval, NotClosed, fold_consts
    P = A.P
    g = A.cfg(fn, sc)
    locs = set(bindings)

    def closed(e):
        return ieval(fold_consts(P, e, fn, sc, locals_=locs), bindings)

    def atom(e):
        try:
            return (bool(closed(e)), True)
        except NotClosed:
            return None
    leaves = [lf for lf in Walker(A, fn, sc, atom).walk(g.entry)]
    if len(leaves) != 1 or leaves[0].kind != "return" or leaves[0].node.ast.value is None:
        raise AnalysisError(f"{fn.qualname}: not a closed decision over its parameters (UNDECIDED)")
    try:
        return closed(leaves[0].deep(leaves[0].node.ast.value, stop=tuple(bindings)))
    except NotClosed as ex:
        raise AnalysisError(f"{fn.qualname}: result `{ex}` is not a closed expression (UNDECIDED)")


def accepted_set(A, fn, sc, param, lo=0, hi=0xFFFF):
    """{v in [lo, hi] : fn(param=v) is truthy} for a one-parameter integer predicate, computed from its breakpoints:
    when the parameter only occurs as a direct operand of comparisons / membership tests against constants, the predicate is
    constant between consecutive constants, so evaluating at k-1, k, k+1 for every constant k (and once inside every gap)
    decides the whole range; otherwise every value is evaluated."""
    from .canon import fold_consts
    P = A.P
    consts = set()
    direct = True
    for n in ast.walk(fn.node):
        if isinstance(n, ast.Name) and n.id == param and isinstance(n.ctx, ast.Load):
            pass
    par = {}
    for x in ast.walk(fn.node):
        for c in ast.iter_child_nodes(x):
            par[id(c)] = x
    for n in ast.walk(fn.node):
        if isinstance(n, ast.Name) and n.id == param and isinstance(n.ctx, ast.Load):
            p_ = par.get(id(n))
            if not isinstance(p_, ast.Compare):
                direct = False
    body = fold_consts(P, ast.Module(body=fn.node.body, type_ignores=[]), fn, sc, locals_={param})
    for n in ast.walk(body):
        if isinstance(n, ast.Constant) and isinstance(n.value, int) and not isinstance(n.value, bool):
            consts.add(n.value)
        if isinstance(n, ast.BinOp) or (isinstance(n, ast.Call) and not (isinstance(n.func, ast.Name) and n.func.id == "range")):
            if any(isinstance(x, ast.Name) and x.id == param for x in ast.walk(n)):
                direct = False
    if not direct:
        return {v for v in range(lo, hi + 1) if eval_predicate(A, fn, sc, {param: v})}
    pts = {lo, hi}
    for k in consts:
        for v in (k - 1, k, k + 1):
            if lo <= v <= hi:
                pts.add(v)
    pts = sorted(pts)
    out = set()
    memo = {}

    def val(v):
        if v not in memo:
            memo[v] = bool(eval_predicate(A, fn, sc, {param: v}))
        return memo[v]
    for i, p in enumerate(pts):
        if val(p):
            out.add(p)
        if i + 1 < len(pts) and pts[i + 1] - p > 1:
            if val(p + 1):
                out |= set(range(p + 1, pts[i + 1]))
    return out


# ---------------------------------------------------------------------------------------------------------------
# finite-domain tabulation: the outcome of a statement list for each value of one selector expression
# ---------------------------------------------------------------------------------------------------------------
class _Opaque:
    """a value the tabulation does not know; any use of it in a decision makes the table UNDECIDED"""

    def __init__(self, text):
        self.text = text

    def __repr__(self):
        return f"<?{self.text[:40]}>"


class _TJump(Exception):
    pass


def _tab_eval(P, fn, cls, expr, env, sel):
    """value of `expr` with locals `env` ({name: value}) and selector texts `sel` ({normalised text: value}); Unknown if it is not closed"""
    from .model import Unknown, unwrap
    ev = lambda e: _tab_eval(P, fn, cls, e, env, sel)  # noqa: E731
    t = norm(expr)
    if t in sel:
        return sel[t]
    if isinstance(expr, ast.Name) and expr.id in env:
        v = env[expr.id]
        if isinstance(v, _Opaque):
            raise Unknown(f"opaque {expr.id}")
        return v
    if isinstance(expr, ast.Compare):
        left = ev(expr.left)
        for op, c in zip(expr.ops, expr.comparators):
            right = ev(c)
            a, b = unwrap(left), right
            if isinstance(op, (ast.In, ast.NotIn)):
                if not isinstance(b, (list, tuple, set, dict, frozenset)):
                    raise Unknown("in on non-container")
                r = any(unwrap(x) == a for x in b)
                r = r if isinstance(op, ast.In) else not r
            else:
                b = unwrap(b)
                try:
                    r = {ast.Eq: lambda: a == b, ast.NotEq: lambda: a != b, ast.Lt: lambda: a < b, ast.LtE: lambda: a <= b,
                         ast.Gt: lambda: a > b, ast.GtE: lambda: a >= b, ast.Is: lambda: a is b, ast.IsNot: lambda: a is not b}[type(op)]()
                except Exception as e:
                    raise Unknown(str(e))
            if not r:
                return False
            left = right
        return True
    if isinstance(expr, ast.BoolOp):
        last = None
        for v in expr.values:
            last = ev(v)
            if isinstance(expr.op, ast.And) and not last:
                return last
            if isinstance(expr.op, ast.Or) and last:
                return last
        return last
    if isinstance(expr, ast.UnaryOp) and isinstance(expr.op, ast.Not):
        return not ev(expr.operand)
    if isinstance(expr, ast.IfExp):
        return ev(expr.body) if ev(expr.test) else ev(expr.orelse)
    if isinstance(expr, ast.Tuple):
        return tuple(ev(e) for e in expr.elts)
    if isinstance(expr, ast.List):
        return [ev(e) for e in expr.elts]
    if isinstance(expr, ast.Dict) and all(k is not None for k in expr.keys):
        return {ev(k): ev(v) for k, v in zip(expr.keys, expr.values)}
    if isinstance(expr, ast.Subscript) and not isinstance(expr.slice, ast.Slice):
        base, k = ev(expr.value), ev(expr.slice)
        if isinstance(base, dict):
            for kk, vv in base.items():
                if unwrap(kk) == unwrap(k):
                    return vv
            raise Unknown("KeyError")
        if isinstance(base, (list, tuple)) and isinstance(unwrap(k), int):
            try:
                return base[unwrap(k)]
            except IndexError:
                raise Unknown("IndexError")
        raise Unknown("subscript")
    if isinstance(expr, ast.Call) and isinstance(expr.func, ast.Attribute) and expr.func.attr == "get" and 1 <= len(expr.args) <= 2 and not expr.keywords:
        base = ev(expr.func.value)
        if isinstance(base, dict):
            k = ev(expr.args[0])
            for kk, vv in base.items():
                if unwrap(kk) == unwrap(k):
                    return vv
            return ev(expr.args[1]) if len(expr.args) == 2 else None
        raise Unknown(".get on non-dict")
    if isinstance(expr, ast.Attribute):
        # <selector>.attr and the like are not closed; everything else is a constant path
        for n in ast.walk(expr):
            if isinstance(n, ast.Name) and n.id in env:
                raise Unknown("attribute of a local")
    names = {n.id for n in ast.walk(expr) if isinstance(n, ast.Name)}
    if names & {k for k, v in env.items() if isinstance(v, _Opaque)}:
        raise Unknown("opaque local")
    return P.const_eval(expr, fn.module, cls=cls, env={k: v for k, v in env.items() if not isinstance(v, _Opaque)})


def tabulate(P, fn, cls, stmts, selector_texts, domain, env0=None):
    """{value: outcome} for each value in `domain` of the selector expression(s) (normalised texts): outcome is ("return", v), ("raise", text)
    or ("fall", None); expression statements (logging) are skipped, assignments update the local store, a branch condition that does not
    close under the selector raises AnalysisError (the table is UNDECIDED rather than guessed)."""
    from .model import Unknown
    from .normalize import InlineBlock

    def run(stmts, env, sel):
        for st in stmts:
            if isinstance(st, (ast.Expr, ast.Pass)):
                continue
            if isinstance(st, ast.Assign) and len(st.targets) == 1 and isinstance(st.targets[0], ast.Name):
                try:
                    env[st.targets[0].id] = _tab_eval(P, fn, cls, st.value, env, sel)
                except (Unknown, AnalysisError):
                    env[st.targets[0].id] = _Opaque(norm(st.value))
                continue
            if isinstance(st, ast.Assign):
                continue
            if isinstance(st, ast.If):
                try:
                    c = _tab_eval(P, fn, cls, st.test, env, sel)
                except (Unknown, AnalysisError) as e:
                    raise AnalysisError(f"tabulate: condition `{norm(st.test)[:80]}` at {fn.qualname}:{st.lineno} is not decided by the selector ({e})")
                r = run(st.body if c else st.orelse, env, sel)
                if r is not None:
                    return r
                continue
            if isinstance(st, ast.Return):
                if st.value is None:
                    return ("return", None)
                try:
                    return ("return", _tab_eval(P, fn, cls, st.value, env, sel))
                except (Unknown, AnalysisError):
                    return ("return", _Opaque(norm(st.value)))
            if isinstance(st, ast.Raise):
                return ("raise", norm(st.exc) if st.exc is not None else "re-raise")
            if isinstance(st, InlineBlock):
                r = None
                try:
                    r = run(st.prologue, env, sel)
                    if r is None:
                        r = run(st.body, env, sel)
                except _TJump:
                    r = None
                if r is not None:
                    return r
                r = run(st.epilogue, env, sel)
                if r is not None:
                    return r
                continue
            if isinstance(st, InlineJump):
                raise _TJump()
            raise AnalysisError(f"tabulate: statement `{norm(st)[:60]}` at {fn.qualname}:{getattr(st, 'lineno', 0)} not understood")
        return None
    out = {}
    for v in domain:
        sel = {t: v for t in selector_texts}
        r = run(stmts, dict(env0 or {}), sel)
        out[v] = r if r is not None else ("fall", None)
    return out
