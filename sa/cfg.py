"""CFG - per-function control-flow graphs with exception edges, and DOM -
dominators / reachability / path queries over them.

Conditions are decomposed by short-circuit evaluation so that every *atomic*
condition has its own true and false edge, materialised as 'T' / 'F' nodes;
"site S is dominated by the false edge of `retries < MIN`" is then plain node
dominance.  `finally` bodies are copied once per exit kind that crosses them.
"""
import ast
from .normalize import InlineBlock, InlineJump
from .model import AnalysisError, norm


class Node:
    __slots__ = ("id", "kind", "ast", "cond", "note", "copy_of")

    def __init__(self, nid, kind, node=None, cond=None, note=""):
        self.id = nid
        self.kind = kind      # entry exit raise stmt cond T F handler dispatch for with join
        self.ast = node
        self.cond = cond      # for T/F: the cond Node
        self.note = note

    @property
    def lineno(self):
        return getattr(self.ast, "lineno", None)

    def text(self):
        if self.ast is None:
            return self.kind
        if self.kind == "handler":
            t = norm(self.ast.type) if self.ast.type is not None else ""
            return f"except {t}"
        if self.kind == "for":
            return f"for {norm(self.ast.target)} in {norm(self.ast.iter)}"
        if self.kind == "with":
            return "with " + ", ".join(norm(i.context_expr) for i in self.ast.items)
        if self.kind in ("T", "F"):
            return f"[{self.kind}] {norm(self.ast)}"
        s = norm(self.ast)
        return s if len(s) < 160 else s[:157] + "..."

    def __repr__(self):
        return f"<{self.id}:{self.kind}:{self.lineno}:{self.text()[:60]}>"


def _contains_call_or_subscript(node):
    for n in _walk_no_nested(node):
        if isinstance(n, (ast.Call, ast.Subscript, ast.Await)):
            return True
    return False


def _walk_no_nested(node):
    """ast.walk that does not descend into nested function/lambda/class bodies
    (they execute later, not as part of this statement)."""
    todo = [node]
    while todo:
        n = todo.pop()
        yield n
        for c in ast.iter_child_nodes(n):
            if isinstance(c, (ast.FunctionDef, ast.AsyncFunctionDef, ast.Lambda, ast.ClassDef)):
                # the lambda *expression* itself is part of the statement
                if isinstance(c, ast.Lambda):
                    yield c
                continue
            todo.append(c)


def walk_no_nested(node):
    return _walk_no_nested(node)


class _Ctx:
    """Where non-local exits go."""

    def __init__(self, targets, parent=None):
        self._t = targets  # kind -> callable returning Node
        self.parent = parent

    def target(self, kind):
        c = self
        while c is not None:
            if kind in c._t:
                return c._t[kind]()
            c = c.parent
        raise KeyError(kind)


class CFG:
    def __init__(self, func_node, is_noreturn=None, name="?"):
        self.func_node = func_node
        self.name = name
        self.nodes = []
        self.succ = {}
        self.pred = {}
        self._is_noreturn = is_noreturn or (lambda call: False)
        self.entry = self._new("entry")
        self.exit = self._new("exit")
        self.raise_exit = self._new("raise")
        self._ast_map = {}   # id(ast node) -> [Node]
        self._idom = None
        self._build()

    # -- construction ------------------------------------------------------
    def _new(self, kind, node=None, cond=None, note=""):
        n = Node(len(self.nodes), kind, node, cond, note)
        self.nodes.append(n)
        self.succ[n] = []
        self.pred[n] = []
        return n

    def _edge(self, a, b):
        if b not in self.succ[a]:
            self.succ[a].append(b)
            self.pred[b].append(a)

    def _connect(self, frontier, node):
        for f in frontier:
            self._edge(f, node)

    def _register(self, node, root):
        for n in _walk_no_nested(root):
            self._ast_map.setdefault(id(n), []).append(node)

    def _build(self):
        fn = self.func_node
        top = _Ctx({
            "return": lambda: self.exit,
            "raise": lambda: self.raise_exit,
            "break": self._bad_jump,
            "continue": self._bad_jump,
            "ijump": self._bad_jump,
        })
        if isinstance(fn, ast.Lambda):
            ret = ast.Return(value=fn.body)
            ast.copy_location(ret, fn.body)
            body = [ret]
        else:
            body = fn.body
        out = self._seq(body, [self.entry], top)
        self._connect(out, self.exit)

    def _bad_jump(self):
        raise AnalysisError(f"break/continue outside loop in {self.name}")

    def _seq(self, stmts, frontier, ctx):
        for st in stmts:
            if not frontier:
                # unreachable code: still build it (detached) so that sites are
                # registered; rules treat unreachable sites explicitly.
                frontier = []
            frontier = self._stmt(st, frontier, ctx)
        return frontier

    def _simple(self, st, frontier, ctx, kind="stmt", root=None):
        n = self._new(kind, st)
        self._register(n, root if root is not None else st)
        self._connect(frontier, n)
        if _contains_call_or_subscript(root if root is not None else st):
            self._edge(n, ctx.target("raise"))
        return n

    def _noreturn_stmt(self, st):
        call = None
        if isinstance(st, ast.Expr) and isinstance(st.value, ast.Call):
            call = st.value
        elif isinstance(st, ast.Return) and isinstance(st.value, ast.Call):
            call = st.value
        elif isinstance(st, ast.Assign) and isinstance(st.value, ast.Call):
            call = st.value
        return call is not None and self._is_noreturn(call)

    def _stmt(self, st, frontier, ctx):
        if isinstance(st, (ast.Expr, ast.Assign, ast.AugAssign, ast.AnnAssign, ast.Delete,
                           ast.Import, ast.ImportFrom, ast.Global, ast.Nonlocal, ast.Pass)):
            n = self._simple(st, frontier, ctx)
            if self._noreturn_stmt(st):
                self._edge(n, ctx.target("raise"))
                return []
            return [n]
        if isinstance(st, (ast.FunctionDef, ast.AsyncFunctionDef, ast.ClassDef)):
            n = self._new("stmt", st, note="def")
            self._ast_map.setdefault(id(st), []).append(n)
            self._connect(frontier, n)
            return [n]
        if isinstance(st, ast.Return):
            n = self._simple(st, frontier, ctx)
            if self._noreturn_stmt(st):
                self._edge(n, ctx.target("raise"))
                return []
            self._edge(n, ctx.target("return"))
            return []
        if isinstance(st, ast.Raise):
            n = self._new("stmt", st)
            self._register(n, st)
            self._connect(frontier, n)
            self._edge(n, ctx.target("raise"))
            return []
        if isinstance(st, ast.Break):
            n = self._new("stmt", st)
            self._connect(frontier, n)
            self._edge(n, ctx.target("break"))
            return []
        if isinstance(st, ast.Continue):
            n = self._new("stmt", st)
            self._connect(frontier, n)
            self._edge(n, ctx.target("continue"))
            return []
        if isinstance(st, ast.Assert):
            t, f = self._cond(st.test, frontier, ctx)
            r = self._new("stmt", st, note="assert-fail")
            self._connect(f, r)
            self._edge(r, ctx.target("raise"))
            return t
        if isinstance(st, ast.If):
            t, f = self._cond(st.test, frontier, ctx)
            a = self._seq(st.body, t, ctx)
            b = self._seq(st.orelse, f, ctx) if st.orelse else f
            return a + b
        if isinstance(st, ast.While):
            head = self._new("join", st, note="while-head")
            self._connect(frontier, head)
            after = self._new("join", st, note="while-after")
            t, f = self._cond(st.test, [head], ctx)
            lctx = _Ctx({
                "return": lambda: ctx.target("return"),
                "raise": lambda: ctx.target("raise"),
                "break": lambda: after,
                "continue": lambda: head,
            }, ctx)
            body_out = self._seq(st.body, t, lctx)
            self._connect(body_out, head)
            else_out = self._seq(st.orelse, f, ctx) if st.orelse else f
            self._connect(else_out, after)
            return [after]
        if isinstance(st, (ast.For, ast.AsyncFor)):
            head = self._new("for", st)
            self._register(head, st.iter)
            self._register(head, st.target)
            self._connect(frontier, head)
            self._edge(head, ctx.target("raise"))
            after = self._new("join", st, note="for-after")
            tn = self._new("T", st.iter, cond=head, note="has-item")
            fnn = self._new("F", st.iter, cond=head, note="exhausted")
            self._edge(head, tn)
            self._edge(head, fnn)
            lctx = _Ctx({
                "return": lambda: ctx.target("return"),
                "raise": lambda: ctx.target("raise"),
                "break": lambda: after,
                "continue": lambda: head,
            }, ctx)
            body_out = self._seq(st.body, [tn], lctx)
            self._connect(body_out, head)
            else_out = self._seq(st.orelse, [fnn], ctx) if st.orelse else [fnn]
            self._connect(else_out, after)
            return [after]
        if isinstance(st, (ast.With, ast.AsyncWith)):
            n = self._new("with", st)
            for it in st.items:
                self._register(n, it.context_expr)
                if it.optional_vars is not None:
                    self._register(n, it.optional_vars)
            self._connect(frontier, n)
            self._edge(n, ctx.target("raise"))
            return self._seq(st.body, [n], ctx)
        if isinstance(st, ast.Try):
            return self._try(st, frontier, ctx)
        if isinstance(st, InlineBlock):
            # body of an inlined helper: its returns (InlineJump) continue after the block
            out = self._seq(st.prologue, frontier, ctx)
            join = self._new("join", st, note="inline-after")
            # only the helper's own returns (InlineJump) end at the block; a real return / break / continue inside the block belongs to
            # the enclosing function (code of the caller threaded into the block)
            ictx = _Ctx({"ijump": lambda: join}, ctx)
            out = self._seq(st.body, out, ictx)
            self._connect(out, join)
            return self._seq(st.epilogue, [join], ctx)
        if isinstance(st, InlineJump):
            n = self._new("stmt", st, note="inline-return")
            self._connect(frontier, n)
            self._edge(n, ctx.target("ijump"))
            return []
        raise AnalysisError(
            f"statement kind {type(st).__name__} at line {st.lineno} of {self.name} not modelled")

    @staticmethod
    def _catch_all(handler):
        t = handler.type
        if t is None:
            return True
        names = []
        for e in (t.elts if isinstance(t, ast.Tuple) else [t]):
            if isinstance(e, ast.Name):
                names.append(e.id)
        # `Exception` is treated as catching every modelled exception
        # (KeyboardInterrupt / SystemExit are not modelled as edges).
        return "BaseException" in names or "Exception" in names

    def _try(self, st, frontier, ctx):
        if st.finalbody:
            memo = {}

            def via_finally(kind):
                def get():
                    if kind not in memo:
                        start = self._new("join", st, note=f"finally[{kind}]")
                        memo[kind] = start
                        out = self._seq(st.finalbody, [start], ctx)
                        self._connect(out, ctx.target(kind))
                    return memo[kind]
                return get
            inner = _Ctx({k: via_finally(k) for k in ("return", "raise", "break", "continue", "ijump")}, ctx)
        else:
            inner = ctx

        if st.handlers:
            dispatch = self._new("dispatch", st)
            body_ctx = _Ctx({
                "return": lambda: inner.target("return"),
                "raise": lambda: dispatch,
                "break": lambda: inner.target("break"),
                "continue": lambda: inner.target("continue"),
            }, inner)
        else:
            dispatch = None
            body_ctx = inner

        body_out = self._seq(st.body, frontier, body_ctx)
        if st.orelse:
            body_out = self._seq(st.orelse, body_out, inner)
        outs = list(body_out)
        if dispatch is not None:
            caught_all = False
            for h in st.handlers:
                hn = self._new("handler", h)
                self._ast_map.setdefault(id(h), []).append(hn)
                self._edge(dispatch, hn)
                outs += self._seq(h.body, [hn], inner)
                if self._catch_all(h):
                    caught_all = True
            if not caught_all:
                self._edge(dispatch, inner.target("raise"))
        if st.finalbody:
            start = self._new("join", st, note="finally[normal]")
            self._connect(outs, start)
            return self._seq(st.finalbody, [start], ctx)
        return outs

    def _cond(self, expr, frontier, ctx):
        """-> (true_frontier, false_frontier)"""
        if isinstance(expr, ast.BoolOp):
            if isinstance(expr.op, ast.And):
                falses = []
                cur = frontier
                for v in expr.values:
                    t, f = self._cond(v, cur, ctx)
                    falses += f
                    cur = t
                return cur, falses
            trues = []
            cur = frontier
            for v in expr.values:
                t, f = self._cond(v, cur, ctx)
                trues += t
                cur = f
            return trues, cur
        if isinstance(expr, ast.UnaryOp) and isinstance(expr.op, ast.Not):
            t, f = self._cond(expr.operand, frontier, ctx)
            return f, t
        n = self._new("cond", expr)
        self._register(n, expr)
        self._connect(frontier, n)
        if _contains_call_or_subscript(expr):
            self._edge(n, ctx.target("raise"))
        const = None
        if isinstance(expr, ast.Constant):
            const = bool(expr.value)
        t_out, f_out = [], []
        if const is not False:
            tn = self._new("T", expr, cond=n)
            self._edge(n, tn)
            t_out = [tn]
        if const is not True:
            fn_ = self._new("F", expr, cond=n)
            self._edge(n, fn_)
            f_out = [fn_]
        return t_out, f_out

    # -- queries -----------------------------------------------------------
    def nodes_of(self, ast_node):
        """CFG nodes (several when a `finally` body was copied) that contain
        the given AST node."""
        return list(self._ast_map.get(id(ast_node), []))

    def reachable(self, start=None, avoid=(), follow_exc=True, edge_ok=None):
        start = start if start is not None else self.entry
        avoid = set(avoid)
        seen = set()
        todo = [start] if start not in avoid else []
        while todo:
            n = todo.pop()
            if n in seen:
                continue
            seen.add(n)
            for s in self.succ[n]:
                if s in avoid or s in seen:
                    continue
                if edge_ok is not None and not edge_ok(n, s):
                    continue
                todo.append(s)
        return seen

    def is_exc_edge(self, a, b):
        """Is a->b an *implicit* exception edge (statement may raise), as
        opposed to normal flow or an explicit `raise`?"""
        if a.kind == "stmt" and isinstance(a.ast, ast.Raise):
            return False
        if a.kind == "stmt" and a.note == "assert-fail":
            return False
        if b is self.raise_exit or b.kind == "dispatch":
            return True
        if b.kind == "join" and b.note == "finally[raise]":
            return True
        return False

    def live_nodes(self):
        return self.reachable(self.entry)

    def _compute_idom(self):
        # iterative dominators (Cooper-Harvey-Kennedy) on reachable nodes
        live = self.live_nodes()
        order = []
        seen = set()

        def dfs(n):
            stack = [(n, iter(self.succ[n]))]
            seen.add(n)
            while stack:
                node, it = stack[-1]
                adv = False
                for s in it:
                    if s not in seen:
                        seen.add(s)
                        stack.append((s, iter(self.succ[s])))
                        adv = True
                        break
                if not adv:
                    order.append(node)
                    stack.pop()
        dfs(self.entry)
        rpo = list(reversed(order))
        idx = {n: i for i, n in enumerate(rpo)}
        idom = {self.entry: self.entry}
        changed = True

        def intersect(a, b):
            while a is not b:
                while idx[a] > idx[b]:
                    a = idom[a]
                while idx[b] > idx[a]:
                    b = idom[b]
            return a
        while changed:
            changed = False
            for n in rpo[1:]:
                preds = [p for p in self.pred[n] if p in idom and p in live]
                if not preds:
                    continue
                new = preds[0]
                for p in preds[1:]:
                    new = intersect(p, new)
                if idom.get(n) is not new:
                    idom[n] = new
                    changed = True
        self._idom = idom

    def dominators(self, node):
        """All nodes dominating `node` (including itself); empty when the node
        is unreachable."""
        if self._idom is None:
            self._compute_idom()
        if node not in self._idom:
            return []
        out = [node]
        n = node
        while self._idom[n] is not n:
            n = self._idom[n]
            out.append(n)
        return out

    def dominates(self, a, b):
        return a in self.dominators(b)

    def dominates_under(self, a, b, edge_ok=None):
        """a dominates b in the sub-graph of edges accepted by edge_ok
        (b unreachable from entry once a is removed)."""
        if a is b:
            return True
        if b not in self.reachable(self.entry, edge_ok=edge_ok):
            return True     # vacuous: b infeasible on this partition
        return b not in self.reachable(self.entry, avoid={a}, edge_ok=edge_ok)

    def is_reachable(self, node):
        if self._idom is None:
            self._compute_idom()
        return node in self._idom

    def edge_facts(self, node):
        """[(polarity, cond_ast, cond_node)] for every T/F node dominating
        `node`, outermost first."""
        out = []
        for d in reversed(self.dominators(node)):
            if d.kind in ("T", "F") and d is not node:
                out.append((d.kind, d.ast, d.cond))
        return out

    def in_loop(self, node):
        """Is `node` on a cycle of the CFG?"""
        for s in self.succ[node]:
            if node in self.reachable(s):
                return True
        return False

    def exists_path(self, a, b, avoid=()):
        return b in self.reachable(a, avoid=avoid)

    def witness_path(self, a, b, avoid=(), edge_ok=None):
        """Shortest path a -> b avoiding nodes in `avoid` (BFS) or None."""
        avoid = set(avoid)
        if a in avoid:
            return None
        prev = {a: None}
        q = [a]
        while q:
            nq = []
            for n in q:
                if n is b:
                    path = []
                    while n is not None:
                        path.append(n)
                        n = prev[n]
                    return list(reversed(path))
                for s in self.succ[n]:
                    if s not in prev and s not in avoid and (edge_ok is None or edge_ok(n, s)):
                        prev[s] = n
                        nq.append(s)
            q = nq
        return None

    def all_paths_pass(self, a, b, through):
        """Every path a -> b passes through a node of `through`?"""
        return not self.exists_path(a, b, avoid=through)

    def enumerate_paths(self, a, targets, max_visits=2, limit=200000):
        """All paths from a to any node in `targets`, visiting each node at
        most `max_visits` times.  Used by the thorough tier to re-derive
        dominance verdicts independently of the dominator computation."""
        targets = set(targets)
        out = []
        count = {}
        path = []

        def rec(n):
            if len(out) > limit:
                raise AnalysisError("path enumeration limit hit")
            c = count.get(n, 0)
            if c >= max_visits:
                return
            count[n] = c + 1
            path.append(n)
            if n in targets:
                out.append(list(path))
            else:
                for s in self.succ[n]:
                    rec(s)
            path.pop()
            count[n] = c
        import sys
        old = sys.getrecursionlimit()
        sys.setrecursionlimit(max(old, 20000))
        try:
            rec(a)
        finally:
            sys.setrecursionlimit(old)
        return out

    def describe_path(self, path, maxlen=14):
        items = [f"{n.lineno or ''}:{n.text()[:50]}" for n in path
                 if n.kind not in ("join",)]
        if len(items) > maxlen:
            items = items[: maxlen // 2] + ["..."] + items[-maxlen // 2:]
        return " -> ".join(items)

    def stmt_nodes(self):
        return [n for n in self.nodes if n.kind in ("stmt", "cond", "for", "with")]
