"""CG - call resolution, a small flow-insensitive value analysis for receivers
and function values, no-return summaries, CFG cache, effect summaries."""
import ast
from .model import (AnalysisError, Unknown, ClassRef, FuncRef, ExtRef, ModuleRef,
                    ClassInfo, FunctionInfo, norm)
from .cfg import CFG, walk_no_nested


class Inst:
    """An instance of a repository class."""
    __slots__ = ("cls",)

    def __init__(self, cls):
        self.cls = cls

    def __eq__(self, o):
        return isinstance(o, Inst) and o.cls is self.cls

    def __hash__(self):
        return hash(("Inst", self.cls.qualname))

    def __repr__(self):
        return f"Inst({self.cls.name})"


class ClsVal:
    __slots__ = ("cls",)

    def __init__(self, cls):
        self.cls = cls

    def __eq__(self, o):
        return isinstance(o, ClsVal) and o.cls is self.cls

    def __hash__(self):
        return hash(("ClsVal", self.cls.qualname))

    def __repr__(self):
        return f"ClsVal({self.cls.name})"


class FnVal:
    __slots__ = ("fn", "self_cls")

    def __init__(self, fn, self_cls=None):
        self.fn = fn
        self.self_cls = self_cls

    def __eq__(self, o):
        return isinstance(o, FnVal) and o.fn is self.fn and o.self_cls is self.self_cls

    def __hash__(self):
        return hash(("FnVal", self.fn.qualname, self.self_cls.qualname if self.self_cls else None))

    def __repr__(self):
        return f"FnVal({self.fn.qualname})"


class ExtVal:
    __slots__ = ("dotted",)

    def __init__(self, dotted):
        self.dotted = dotted

    def __eq__(self, o):
        return isinstance(o, ExtVal) and o.dotted == self.dotted

    def __hash__(self):
        return hash(("ExtVal", self.dotted))

    def __repr__(self):
        return f"Ext({self.dotted})"


class Callee:
    """One resolved target of a call expression."""
    __slots__ = ("fn", "self_cls", "how", "ext")

    def __init__(self, fn=None, self_cls=None, how="", ext=None):
        self.fn = fn
        self.self_cls = self_cls
        self.how = how
        self.ext = ext

    def __repr__(self):
        if self.fn is not None:
            return f"Callee({self.fn.qualname}, {self.how})"
        return f"Callee(ext {self.ext})"


_MAXD = 24


class Analysis:
    def __init__(self, program):
        self.P = program
        self._cfg = {}
        self._noreturn = None
        self._field_writes = None     # attr -> [(rhs expr, FunctionInfo)]
        self._ctor_calls = None       # ClassInfo -> [(call, FunctionInfo)]
        self._fn_calls = None         # FunctionInfo -> [(call, FunctionInfo)] (static by-name)
        self._methods_by_name = None
        self._val_memo = {}
        self._ret_memo = {}
        self._res_memo = {}
        self.unresolved = []
        self._own_cache = {}
        self._attr_calls = {}
        self._index()

    # ------------------------------------------------------------------
    def _index(self):
        P = self.P
        self._field_writes = {}
        self._methods_by_name = {}
        for ci in P.classes.values():
            for m in ci.methods.values():
                self._methods_by_name.setdefault(m.name, []).append(m)
        for fn in P.all_functions:
            for n in self.own_nodes(fn):
                if isinstance(n, ast.Assign):
                    for t in n.targets:
                        self._index_target(t, n.value, fn)
                elif isinstance(n, ast.AnnAssign) and n.value is not None:
                    self._index_target(n.target, n.value, fn)
        self._ctor_calls = {}
        self._fn_calls = {}
        for fn in P.all_functions:
            for n in self.own_nodes(fn):
                if isinstance(n, ast.Call):
                    if isinstance(n.func, ast.Attribute):
                        self._attr_calls.setdefault(n.func.attr, []).append((n, fn))
                    tgt = self._static_target(n.func, fn)
                    if isinstance(tgt, ClassRef):
                        self._ctor_calls.setdefault(tgt.cls, []).append((n, fn))
                    elif isinstance(tgt, FuncRef):
                        self._fn_calls.setdefault(tgt.func, []).append((n, fn))
        # module-level code (e.g. `if __name__ == "__main__":` blocks)
        self.module_level = {}
        for mod in P.modules.values():
            pseudo = FunctionInfo("<module>", f"{mod.name}.<module>", mod, None,
                                  ast.FunctionDef(name="<module>", args=ast.arguments(
                                      posonlyargs=[], args=[], kwonlyargs=[], kw_defaults=[],
                                      defaults=[]), body=[s for s in mod.tree.body
                                                          if not isinstance(s, (ast.FunctionDef,
                                                                                ast.ClassDef))],
                                      decorator_list=[], lineno=1, col_offset=0))
            self.module_level[mod.name] = pseudo
            for n in self.own_nodes(pseudo):
                if isinstance(n, ast.Call):
                    tgt = self._static_target(n.func, pseudo)
                    if isinstance(tgt, ClassRef):
                        self._ctor_calls.setdefault(tgt.cls, []).append((n, pseudo))
                    elif isinstance(tgt, FuncRef):
                        self._fn_calls.setdefault(tgt.func, []).append((n, pseudo))
                elif isinstance(n, ast.Assign):
                    for t in n.targets:
                        self._index_target(t, n.value, pseudo)
            # lambdas at module level (manager_*.py) need FunctionInfo objects
            self.P._index_nested(pseudo)

    def _index_target(self, t, value, fn):
        if isinstance(t, ast.Attribute):
            self._field_writes.setdefault(t.attr, []).append((value, fn, t))
        elif isinstance(t, (ast.Tuple, ast.List)):
            same = isinstance(value, (ast.Tuple, ast.List)) and len(value.elts) == len(t.elts) and not any(isinstance(x, ast.Starred) for x in list(value.elts) + list(t.elts))
            for i, e in enumerate(t.elts):
                self._index_target(e, value.elts[i] if same else None, fn)

    def own_nodes(self, fn):
        """AST nodes belonging to fn itself (nested defs/lambdas excluded,
        except that the Lambda node itself is yielded)."""
        c = self._own_cache.get(id(fn))
        if c is None:
            body = fn.node.body if not isinstance(fn.node, ast.Lambda) else [fn.node.body]
            c = []
            for st in body:
                c.extend(walk_no_nested(st))
            self._own_cache[id(fn)] = c
        return c

    def _static_target(self, f, fn):
        try:
            if isinstance(f, ast.Name):
                if self._is_local(f.id, fn):
                    return None
                r = self.P.resolve_name(fn.module, f.id)
                if isinstance(r, tuple):
                    return self.P.const_eval(r[1], r[2])
                return r
            if isinstance(f, ast.Attribute):
                return self.P.const_eval(f, fn.module)
        except (Unknown, AnalysisError):
            return None
        return None

    def _is_local(self, name, fn):
        f = fn
        while f is not None:
            if isinstance(f.node, (ast.FunctionDef, ast.AsyncFunctionDef, ast.Lambda)):
                a = f.node.args
                if name in [x.arg for x in a.posonlyargs + a.args + a.kwonlyargs] or \
                        (a.vararg and a.vararg.arg == name) or (a.kwarg and a.kwarg.arg == name):
                    return True
            if name in f.nested:
                return True
            for n in self.own_nodes(f):
                if isinstance(n, ast.Name) and n.id == name and isinstance(n.ctx, ast.Store):
                    return True
            f = f.parent
        return False

    # -- value analysis ----------------------------------------------------
    def values_of(self, expr, fn, self_cls=None, depth=0):
        key = (id(expr), fn.qualname, self_cls.qualname if self_cls else None)
        if key in self._val_memo:
            return self._val_memo[key]
        if depth > _MAXD:
            return frozenset()
        self._val_memo[key] = frozenset()   # cycle guard
        out = frozenset(self._values_of(expr, fn, self_cls, depth))
        self._val_memo[key] = out
        return out

    def _self_classes(self, fn, self_cls):
        if self_cls is not None:
            return [self_cls]
        if fn.cls is None:
            return []
        return self.P.subclasses(fn.cls)

    def _values_of(self, expr, fn, self_cls, depth):
        P = self.P
        out = set()
        if expr is None:
            return out
        if isinstance(expr, ast.Lambda):
            for l in self._all_lambdas(fn):
                if l.node is expr:
                    out.add(FnVal(l, self_cls))
            return out
        if isinstance(expr, ast.Name):
            nm = expr.id
            if nm in ("self", "cls") and fn.cls is not None and self._first_param(fn) == nm:
                f0 = fn
                for c in self._self_classes(f0, self_cls):
                    out.add(Inst(c) if nm == "self" and not f0.is_classmethod else ClsVal(c))
                return out
            # closure / local
            f = fn
            while f is not None:
                if nm in f.nested:
                    out.add(FnVal(f.nested[nm], self_cls))
                    return out
                found = False
                for n in self.own_nodes(f):
                    if isinstance(n, ast.Assign):
                        for t in n.targets:
                            if isinstance(t, ast.Name) and t.id == nm:
                                found = True
                                out |= self.values_of(n.value, f, self_cls, depth + 1)
                    elif isinstance(n, ast.withitem) and isinstance(n.optional_vars, ast.Name) \
                            and n.optional_vars.id == nm:
                        found = True
                        out |= self.values_of(n.context_expr, f, self_cls, depth + 1)
                    elif isinstance(n, (ast.For, ast.comprehension)) \
                            and isinstance(n.target, ast.Name) and n.target.id == nm:
                        found = True
                        out |= self._elements_of(n.iter, f, self_cls, depth + 1)
                if nm in self._params(f):
                    found = True
                    out |= self._param_values(f, nm, self_cls, depth + 1)
                if found:
                    return out
                f = f.parent
            try:
                r = P.resolve_name(fn.module, nm)
            except Unknown:
                import builtins
                if hasattr(builtins, nm):
                    out.add(ExtVal("builtins." + nm))
                return out
            return self._ref_to_vals(r, depth)
        if isinstance(expr, ast.Attribute):
            # class-level / module-level constant first
            base_vals = self.values_of(expr.value, fn, self_cls, depth + 1)
            got = False
            for bv in base_vals:
                if isinstance(bv, (Inst, ClsVal)):
                    r = bv.cls.lookup(expr.attr)
                    if r is not None:
                        owner, kind, obj = r
                        got = True
                        if kind == "method":
                            if obj.is_property:
                                out |= self.return_values(obj, bv.cls, depth + 1)
                            else:
                                out.add(FnVal(obj, bv.cls))
                        else:
                            out |= self._class_attr_values(bv.cls, owner, expr.attr, obj, depth)
                    # instance fields
                    for (rhs, wfn, tgt) in self._field_writes.get(expr.attr, []):
                        if wfn.cls is not None and (wfn.cls in bv.cls.mro()) \
                                and self._live_writer(bv.cls, wfn) \
                                and isinstance(tgt.value, ast.Name) and tgt.value.id == "self":
                            got = True
                            if rhs is not None:
                                out |= self.values_of(rhs, wfn, bv.cls, depth + 1)
                elif isinstance(bv, ExtVal):
                    out.add(ExtVal(bv.dotted + "." + expr.attr))
                    got = True
            if got:
                return out
            if not base_vals or all(isinstance(b, ExtVal) for b in base_vals):
                # module attribute?
                try:
                    v = P.const_eval(expr, fn.module)
                    return self._ref_to_vals(v, depth)
                except (Unknown, AnalysisError):
                    pass
            # unknown receiver: attribute-name keyed flow (points-to fallback)
            if not any(isinstance(b, (Inst, ClsVal)) for b in base_vals):
                for (rhs, wfn, tgt) in self._field_writes.get(expr.attr, []):
                    if rhs is not None:
                        out |= self.values_of(rhs, wfn, None, depth + 1)
            return out
        if isinstance(expr, ast.Call):
            # D.get(k[, default]) on a container whose stored values are known: one of those values (or the default)
            if isinstance(expr.func, ast.Attribute) and expr.func.attr == "get" and 1 <= len(expr.args) <= 2 and not expr.keywords:
                ev = self._elements_of(expr.func.value, fn, self_cls, depth + 1)
                if ev:
                    if len(expr.args) == 2:
                        ev = ev | self.values_of(expr.args[1], fn, self_cls, depth + 1)
                    return ev
            for c in self.resolve_call(expr, fn, self_cls, depth + 1):
                if c.fn is not None:
                    if c.how == "ctor":
                        out.add(Inst(c.self_cls))
                    else:
                        out |= self.return_values(c.fn, c.self_cls, depth + 1)
                elif c.ext is not None:
                    if c.how == "ctor-noinit":
                        out.add(Inst(c.self_cls))
                    else:
                        out.add(ExtVal(c.ext + "()"))
            return out
        if isinstance(expr, ast.Subscript):
            return self._elements_of(expr.value, fn, self_cls, depth + 1)
        if isinstance(expr, ast.IfExp):
            return self.values_of(expr.body, fn, self_cls, depth + 1) | \
                self.values_of(expr.orelse, fn, self_cls, depth + 1)
        if isinstance(expr, ast.BoolOp):
            for v in expr.values:
                out |= self.values_of(v, fn, self_cls, depth + 1)
            return out
        return out

    def _elements_of(self, expr, fn, self_cls, depth):
        """Values of the elements / dict values of a container expression."""
        out = set()
        if isinstance(expr, (ast.List, ast.Tuple, ast.Set)):
            for e in expr.elts:
                out |= self.values_of(e, fn, self_cls, depth + 1)
            return out
        if isinstance(expr, ast.Dict):
            for v in expr.values:
                out |= self.values_of(v, fn, self_cls, depth + 1)
            return out
        if isinstance(expr, ast.Call) and isinstance(expr.func, ast.Attribute) \
                and expr.func.attr in ("values", "items", "keys") and not expr.args:
            return self._elements_of(expr.func.value, fn, self_cls, depth + 1)
        # container held in a variable / attribute: look at what was stored
        if isinstance(expr, ast.Name):
            f = fn
            while f is not None:
                for n in self.own_nodes(f):
                    if isinstance(n, ast.Assign):
                        for t in n.targets:
                            if isinstance(t, ast.Name) and t.id == expr.id:
                                out |= self._elements_of(n.value, f, self_cls, depth + 1)
                            if isinstance(t, ast.Subscript) and isinstance(t.value, ast.Name) \
                                    and t.value.id == expr.id:
                                out |= self.values_of(n.value, f, self_cls, depth + 1)
                if out:
                    return out
                f = f.parent
            try:
                r = self.P.resolve_name(fn.module, expr.id)
                if isinstance(r, tuple):
                    pseudo = self.module_level[r[2].name]
                    return self._elements_of(r[1], pseudo, None, depth + 1)
            except Unknown:
                pass
            return out
        if isinstance(expr, ast.Attribute):
            base_vals = self.values_of(expr.value, fn, self_cls, depth + 1)
            for bv in base_vals:
                if isinstance(bv, (Inst, ClsVal)):
                    r = bv.cls.lookup(expr.attr)
                    if r is not None and r[1] == "assign":
                        owner = r[0]
                        e = r[2]
                        pseudo = self._class_pseudo(owner)
                        if expr.attr in owner.late_assigns and expr.attr not in owner.assigns:
                            e, m = owner.late_assigns[expr.attr]
                            pseudo = self.module_level[m.name]
                        out |= self._elements_of(e, pseudo, None, depth + 1)
                    for (rhs, wfn, tgt) in self._field_writes.get(expr.attr, []):
                        if wfn.cls is not None and wfn.cls in bv.cls.mro() and rhs is not None \
                                and self._live_writer(bv.cls, wfn) \
                                and isinstance(tgt.value, ast.Name) and tgt.value.id == "self":
                            out |= self._elements_of(rhs, wfn, bv.cls, depth + 1)
            return out
        return out

    def _live_writer(self, cls, wfn):
        """Is the method containing a `self.x = ...` write executed for
        instances of cls?  Not when it is overridden in cls's MRO without a
        super() call."""
        m = wfn
        while m.parent is not None:
            m = m.parent
        if m.cls is None:
            return True
        r = cls.lookup(m.name)
        if r is None or r[2] is m:
            return True
        mro = cls.mro()
        for c in mro[:mro.index(m.cls)]:
            o = c.methods.get(m.name)
            if o is None:
                continue
            for n in self.own_nodes(o):
                if isinstance(n, ast.Call) and isinstance(n.func, ast.Attribute) \
                        and n.func.attr == m.name and isinstance(n.func.value, ast.Call) \
                        and isinstance(n.func.value.func, ast.Name) and n.func.value.func.id == "super":
                    return True
        return False

    def _class_pseudo(self, ci):
        key = ("classbody", ci.qualname)
        if key not in self._res_memo:
            self._res_memo[key] = FunctionInfo(
                "<classbody>", ci.qualname + ".<classbody>", ci.module, None,
                ast.FunctionDef(name="<classbody>", args=ast.arguments(
                    posonlyargs=[], args=[], kwonlyargs=[], kw_defaults=[], defaults=[]),
                    body=[s for s in ci.node.body if not isinstance(s, (ast.FunctionDef,))],
                    decorator_list=[], lineno=ci.node.lineno, col_offset=0))
            self.P._index_nested(self._res_memo[key])
        return self._res_memo[key]

    def _class_attr_values(self, cls, owner, attr, expr, depth):
        if attr in owner.late_assigns and attr not in owner.assigns:
            e, m = owner.late_assigns[attr]
            return self.values_of(e, self.module_level[m.name], None, depth + 1)
        return self.values_of(expr, self._class_pseudo(owner), None, depth + 1)

    def _ref_to_vals(self, r, depth):
        out = set()
        if isinstance(r, tuple):
            pseudo = self.module_level[r[2].name]
            return set(self.values_of(r[1], pseudo, None, depth + 1))
        if isinstance(r, ClassRef):
            out.add(ClsVal(r.cls))
        elif isinstance(r, FuncRef):
            out.add(FnVal(r.func, r.bound_cls))
        elif isinstance(r, ExtRef):
            out.add(ExtVal(r.dotted))
        elif isinstance(r, ModuleRef):
            out.add(ExtVal("module:" + r.mod.name))
        return out

    def _all_lambdas(self, fn):
        out = list(fn.lambdas)
        return out

    def _first_param(self, fn):
        f = fn
        while f.parent is not None and f.cls is not None:
            f = f.parent
        if isinstance(f.node, ast.Lambda):
            return None
        a = f.node.args
        ps = [x.arg for x in a.posonlyargs + a.args]
        if f.cls is None or f.is_static or not ps:
            return None
        return ps[0]

    def _params(self, fn):
        if not isinstance(fn.node, (ast.FunctionDef, ast.AsyncFunctionDef, ast.Lambda)):
            return []
        a = fn.node.args
        return [x.arg for x in a.posonlyargs + a.args + a.kwonlyargs]

    def _param_values(self, fn, name, self_cls, depth):
        """Values flowing into parameter `name` of fn from syntactically
        resolvable call sites (constructors, module functions, self.method)."""
        out = set()
        a = fn.node.args
        pos = [x.arg for x in a.posonlyargs + a.args]
        is_method = fn.cls is not None and fn.parent is None and not fn.is_static
        idx = pos.index(name) if name in pos else None
        if is_method and idx is not None:
            idx -= 1
        sites = []
        if fn.name == "__init__" and fn.cls is not None:
            for ci in self.P.subclasses(fn.cls):
                r = ci.lookup("__init__")
                if r and r[2] is fn:
                    sites += self._ctor_calls.get(ci, [])
            # super().__init__(...) calls
            for sub in self.P.subclasses(fn.cls, strict=True):
                m = sub.methods.get("__init__")
                if m:
                    for n in self.own_nodes(m):
                        if isinstance(n, ast.Call) and isinstance(n.func, ast.Attribute) \
                                and n.func.attr == "__init__" and isinstance(n.func.value, ast.Call) \
                                and isinstance(n.func.value.func, ast.Name) \
                                and n.func.value.func.id == "super":
                            sites.append((n, m))
        elif fn.cls is None and fn.parent is None:
            sites += self._fn_calls.get(fn, [])
        elif fn.cls is not None and fn.parent is None:
            # self.method(...) / obj.method(...) by method name
            sites += self._attr_calls.get(fn.name, [])
        elif fn.parent is not None and isinstance(fn.node, ast.Lambda):
            return out
        for (call, caller) in sites:
            if idx is not None and 0 <= idx < len(call.args):
                out |= self.values_of(call.args[idx], caller, None, depth + 1)
            for kw in call.keywords:
                if kw.arg == name:
                    out |= self.values_of(kw.value, caller, None, depth + 1)
        return out

    def return_values(self, fn, self_cls=None, depth=0):
        key = (fn.qualname, self_cls.qualname if self_cls else None)
        if key in self._ret_memo:
            return self._ret_memo[key]
        if depth > _MAXD:
            return frozenset()
        self._ret_memo[key] = frozenset()
        out = set()
        if isinstance(fn.node, ast.Lambda):
            out |= self.values_of(fn.node.body, fn, self_cls, depth + 1)
        else:
            for n in self.own_nodes(fn):
                if isinstance(n, ast.Return) and n.value is not None:
                    out |= self.values_of(n.value, fn, self_cls, depth + 1)
        out = frozenset(out)
        self._ret_memo[key] = out
        return out

    # -- call resolution -----------------------------------------------------
    def resolve_call(self, call, fn, self_cls=None, depth=0):
        """-> [Callee]; empty list = unresolved."""
        f = call.func
        out = []
        if isinstance(f, ast.Attribute) and isinstance(f.value, ast.Call) \
                and isinstance(f.value.func, ast.Name) and f.value.func.id == "super":
            owner = fn
            while owner.parent is not None:
                owner = owner.parent
            if owner.cls is None:
                return out
            for sc in self._self_classes(owner, self_cls):
                mro = sc.mro()
                i = mro.index(owner.cls)
                hit = False
                for c in mro[i + 1:]:
                    if f.attr in c.methods:
                        out.append(Callee(c.methods[f.attr], sc, "super"))
                        hit = True
                        break
                if not hit:
                    out.append(Callee(ext="object." + f.attr, how="super-ext"))
            return self._dedup(out)
        vals = self.values_of(f, fn, self_cls, depth + 1)
        for v in vals:
            if isinstance(v, FnVal):
                out.append(Callee(v.fn, v.self_cls, "value"))
            elif isinstance(v, ClsVal):
                r = v.cls.lookup("__init__")
                if r is not None and r[1] == "method":
                    out.append(Callee(r[2], v.cls, "ctor"))
                else:
                    out.append(Callee(ext=v.cls.qualname, self_cls=v.cls, how="ctor-noinit"))
            elif isinstance(v, ExtVal):
                out.append(Callee(ext=v.dotted, how="ext"))
        if not out and isinstance(f, ast.Attribute):
            # class-hierarchy fallback by method name
            base_vals = self.values_of(f.value, fn, self_cls, depth + 1)
            if not any(isinstance(b, (Inst, ClsVal)) for b in base_vals):
                for m in self._methods_by_name.get(f.attr, []):
                    out.append(Callee(m, None, "cha"))
        return self._dedup(out)

    @staticmethod
    def _dedup(cs):
        seen = set()
        out = []
        for c in cs:
            k = (c.fn.qualname if c.fn else None, c.self_cls.qualname if c.self_cls else None,
                 c.ext, c.how == "ctor")
            if k not in seen:
                seen.add(k)
                out.append(c)
        return out

    def calls_in(self, fn):
        return [n for n in self.own_nodes(fn) if isinstance(n, ast.Call)]

    def fn_args_called(self, call, fn, self_cls=None):
        """Function values passed as arguments to a call (map/sorted/filter/
        Thread(target=..)): treated as invoked by the callee."""
        out = []
        for a in list(call.args) + [k.value for k in call.keywords]:
            if isinstance(a, (ast.Lambda, ast.Name, ast.Attribute)):
                for v in self.values_of(a, fn, self_cls):
                    if isinstance(v, FnVal):
                        out.append(Callee(v.fn, v.self_cls, "arg"))
                    elif isinstance(v, ClsVal) and isinstance(a, ast.Name):
                        r = v.cls.lookup("__init__")
                        if r is not None and r[1] == "method":
                            out.append(Callee(r[2], v.cls, "ctor"))
        return out

    def callees(self, fn, self_cls=None, include_args=True):
        """[(call_node, [Callee])] for all calls in fn."""
        key = ("callees", fn.qualname, self_cls.qualname if self_cls else None, include_args)
        if key in self._res_memo:
            return self._res_memo[key]
        out = []
        for call in self.calls_in(fn):
            cs = self.resolve_call(call, fn, self_cls)
            if include_args:
                # only for callees outside the repo (map, sorted, Thread...)
                if not any(c.fn is not None for c in cs):
                    cs = cs + self.fn_args_called(call, fn, self_cls)
            out.append((call, cs))
        self._res_memo[key] = out
        return out

    def reachable_functions(self, roots, self_cls_of=None):
        """Transitive closure over the call graph from [(fn, self_cls)]."""
        seen = {}
        todo = list(roots)
        while todo:
            fn, sc = todo.pop()
            k = (fn.qualname, sc.qualname if sc else None)
            if k in seen:
                continue
            seen[k] = (fn, sc)
            for call, cs in self.callees(fn, sc):
                for c in cs:
                    if c.fn is not None:
                        todo.append((c.fn, c.self_cls if c.self_cls is not None else
                                     (sc if (c.how == "value" and False) else None)))
        return list(seen.values())

    # -- no-return summaries & CFG cache -------------------------------------
    def noreturn_set(self):
        if self._noreturn is not None:
            return self._noreturn
        nr = set()
        changed = True
        rounds = 0
        while changed:
            rounds += 1
            if rounds > 50:
                raise AnalysisError("no-return fixpoint did not converge")
            changed = False
            self._noreturn = nr
            self._cfg = {}
            for fn in self.P.all_functions:
                if fn.qualname in nr or isinstance(fn.node, ast.Lambda):
                    continue
                g = self.cfg(fn)
                if g.exit not in g.live_nodes():
                    nr.add(fn.qualname)
                    changed = True
        self._noreturn = nr
        self._cfg = {}
        return nr

    def is_noreturn_call(self, call, fn, self_cls=None):
        nr = self._noreturn if self._noreturn is not None else set()
        if isinstance(call.func, ast.Attribute) and isinstance(call.func.value, ast.Name) \
                and call.func.value.id == "sys" and call.func.attr == "exit":
            return True
        if not nr:
            return False
        # cheap pre-filter on the callee's simple name
        name = call.func.attr if isinstance(call.func, ast.Attribute) else \
            (call.func.id if isinstance(call.func, ast.Name) else None)
        if name is None or not any(q.endswith("." + name) for q in nr):
            return False
        cs = self.resolve_call(call, fn, self_cls)
        fns = [c for c in cs if c.fn is not None]
        return bool(fns) and all(c.fn.qualname in nr for c in fns) and len(fns) == len(cs)

    def cfg(self, fn, self_cls=None):
        key = (fn.qualname, self_cls.qualname if self_cls else None)
        if key not in self._cfg:
            self._cfg[key] = CFG(fn.node,
                                 is_noreturn=lambda call: self.is_noreturn_call(call, fn, self_cls),
                                 name=fn.qualname)
        return self._cfg[key]

    # -- who-calls -----------------------------------------------------------
    def call_sites_of(self, pred, self_cls_ctx=None):
        """All (caller fn, call node, callees) in the program whose resolved
        callees satisfy pred(Callee)."""
        out = []
        for fn in list(self.P.all_functions) + list(self.module_level.values()):
            for call, cs in self.callees(fn, None):
                hit = [c for c in cs if pred(c)]
                if hit:
                    out.append((fn, call, hit))
        return out
