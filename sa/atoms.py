"""FACTS (validator part) - normalised atoms over request access paths.

For a validator function the module derives, per normal `return`, the
conjunction of atoms (conditions on request paths) that dominates it,
including the atoms that helper predicates establish when they return truthy
(`has_field_of_type`, `is_nonempty_hex_string`, ...; their summaries are
computed from their own source, not assumed from their names)."""
import ast
from .model import AnalysisError, Unknown, norm, unwrap
from .query import Facts, Fact, make_facts, call_name, try_fold, defs_of


class Atom:
    """kind, path (tuple of str keys / '*'), args.  Kinds:
    present absent type elemtype len leneq hex hexlen eq range bip32 param"""
    __slots__ = ("kind", "path", "args", "src")

    def __init__(self, kind, path, args=(), src=None):
        args = tuple(args)
        # canonical forms: len != 0 / len > 0 -> len >= 1 ; x > k -> x >= k+1 ; x < k -> x <= k-1
        if kind in ("len", "range") and len(args) == 2 and isinstance(args[1], int):
            op, k = args
            if kind == "len" and op == "!=" and k == 0:
                args = (">=", 1)
            elif op == ">":
                args = (">=", k + 1)
            elif op == "<":
                args = ("<=", k - 1)
        self.kind, self.path, self.args, self.src = kind, tuple(path), args, src

    def key(self):
        return (self.kind, self.path, self.args)

    def __eq__(self, o):
        return isinstance(o, Atom) and self.key() == o.key()

    def __hash__(self):
        return hash(self.key())

    def text(self):
        p = ".".join(self.path) if self.path else "<request>"
        a = ",".join(str(x) for x in self.args)
        return f"{self.kind}({p}{': ' + a if a else ''})"

    def __repr__(self):
        return self.text()


_TYPES = {"dict": "dict", "list": "list", "str": "str", "int": "int", "bytes": "bytes",
          "bool": "bool", "float": "float"}


class PathEnv:
    """Maps local expressions to request paths."""

    def __init__(self, A, fn, roots, cls=None):
        self.A, self.fn = A, fn
        self.cls = cls if cls is not None else fn.cls
        self.roots = dict(roots)   # local name -> path tuple
        self.defaulted = set()     # paths read through .get(key, default) with a default other than None

    def path_of(self, e, depth=0):
        if depth > 8:
            return None
        if isinstance(e, ast.Name):
            if e.id in self.roots:
                return self.roots[e.id]
            ds = defs_of(self.A, self.fn, e.id)
            if len(ds) == 1 and isinstance(ds[0], ast.Assign):
                return self.path_of(ds[0].value, depth + 1)
            return None
        if isinstance(e, ast.Subscript):
            base = self.path_of(e.value, depth + 1)
            if base is None:
                return None
            if isinstance(e.slice, ast.Constant) and isinstance(e.slice.value, str):
                return base + (e.slice.value,)
            ok, k = try_fold(self.A.P, e.slice, self.fn, self.cls)
            if ok and isinstance(k, str):
                return base + (k,)
            if isinstance(e.slice, ast.Name) and e.slice.id in self.fn.params \
                    and base and base[0].startswith("$"):
                return base + ("$" + e.slice.id,)
            return base + ("*",)
        if isinstance(e, ast.Call) and isinstance(e.func, ast.Attribute) and e.func.attr == "get" \
                and e.args:
            base = self.path_of(e.func.value, depth + 1)
            ok, k = try_fold(self.A.P, e.args[0], self.fn, self.cls)
            if base is not None and ok and isinstance(k, str):
                if len(e.args) > 1 and not (isinstance(e.args[1], ast.Constant) and e.args[1].value is None):
                    self.defaulted.add(base + (k,))
                return base + (k,)
        return None


class AtomExtractor:
    def __init__(self, A):
        self.A = A
        self.P = A.P
        self.F = Facts(A)
        self._summ = {}

    # -- helper predicate summaries ---------------------------------------
    def truthy_summary(self, fn):
        """For a module-level predicate: atoms (over its parameters, as
        pseudo-paths ('$param',...)) that hold whenever it returns truthy.
        None if the shape is not understood."""
        if fn.qualname in self._summ:
            return self._summ[fn.qualname]
        self._summ[fn.qualname] = None
        params = fn.params
        env = PathEnv(self.A, fn, {p: ("$" + p,) for p in params})
        g = self.A.cfg(fn, None)
        result = None
        rets = [n for n in self.A.own_nodes(fn) if isinstance(n, ast.Return)]
        truthy_sets = []
        for r in rets:
            v = r.value
            if v is None or (isinstance(v, ast.Constant) and not v.value):
                continue
            atoms = set()
            ok = True
            # atoms dominating the return
            for rn in g.nodes_of(r):
                for f in self.F.local(fn, None, rn):
                    # `bs is not None` where bs is either bytes.fromhex(X) or the None of the handler that caught its failure: the decoding succeeded
                    if f.kind == "cmp" and f.op == "is not" and isinstance(f.left, ast.Name) and isinstance(f.right, ast.Constant) and f.right.value is None:
                        ds_ = defs_of(self.A, fn, f.left.id)
                        hx_ = [d_ for d_ in ds_ if isinstance(d_, ast.Assign) and isinstance(d_.value, ast.Call) and call_name(d_.value) == "fromhex" and d_.value.args]
                        rest_ = [d_ for d_ in ds_ if d_ not in hx_]
                        if len(hx_) == 1 and all(isinstance(d_, ast.Assign) and isinstance(d_.value, ast.Constant) and d_.value.value is None for d_ in rest_):
                            p = env.path_of(hx_[0].value.args[0])
                            if p is not None:
                                atoms.add(Atom("hex", p))
                    a = self.atoms_of_fact(f, env)
                    if a is None:
                        continue
                    atoms |= set(a)
                # completed bytes.fromhex(param) before the return
                for call, d in self.F.completed_calls(fn, None, rn, include_self=True):
                    if call_name(call) == "fromhex" and call.args:
                        p = env.path_of(call.args[0])
                        if p is None and isinstance(call.args[0], ast.Name):
                            # `value = value[2:]` style re-definitions: give up on prefix forms
                            p = None
                        if p is not None:
                            atoms.add(Atom("hex", p))
            # the returned expression itself
            conj = v.values if isinstance(v, ast.BoolOp) and isinstance(v.op, ast.And) else [v]
            for c in conj:
                fs = make_facts("T", c, fn)
                for f in fs:
                    a = self.atoms_of_fact(f, env)
                    if a is None:
                        if isinstance(v, ast.Constant) and v.value is True:
                            continue
                        ok = False
                    else:
                        atoms |= set(a)
            if not ok:
                self._summ[fn.qualname] = None
                return None
            truthy_sets.append(atoms)
        if truthy_sets:
            result = set.intersection(*truthy_sets) if len(truthy_sets) > 1 else truthy_sets[0]
        self._summ[fn.qualname] = result
        return result

    def _len_of_hex(self, e, env):
        """len(bs) where bs = bytes.fromhex(X) -> path of X"""
        if isinstance(e, ast.Call) and call_name(e) == "len" and e.args:
            a = e.args[0]
            if isinstance(a, ast.Name):
                ds = defs_of(self.A, env.fn, a.id)
                # (besides the decoding, the name may be set to None where the decoding failed - len() is never reached with that)
                ds = [d_ for d_ in ds if not (isinstance(d_, ast.Assign) and isinstance(d_.value, ast.Constant) and d_.value.value is None)] if len(ds) > 1 else ds
                if len(ds) == 1 and isinstance(ds[0].value, ast.Call) and call_name(ds[0].value) == "fromhex":
                    return env.path_of(ds[0].value.args[0])
            if isinstance(a, ast.Call) and call_name(a) == "fromhex":
                return env.path_of(a.args[0])
        return None

    def _lfold(self, e, fn, cls, depth=0):
        """try_fold, following a local name that has one definition (e.g. a parameter binding of an inlined helper)."""
        if not (isinstance(e, ast.Name) and defs_of(self.A, fn, e.id)):
            ok, v = try_fold(self.P, e, fn, cls)
            if ok:
                return ok, v
        if isinstance(e, ast.Name) and depth < 4 and e.id not in fn.params:
            ds = defs_of(self.A, fn, e.id)
            if len(ds) == 1 and isinstance(ds[0], ast.Assign):
                return self._lfold(ds[0].value, fn, cls, depth + 1)
        return False, None

    # -- fact -> atoms --------------------------------------------------------
    def atoms_of_fact(self, f, env):
        """[Atom] or None when the fact is outside the idiom table."""
        P = self.P
        fn = env.fn
        if f.kind == "cmp":
            l, r, op = f.left, f.right, f.op
            # constant on the left (0 <= x, chained 0 <= x <= MAX): the mirrored comparison with the request value on the left
            if op in ("<", "<=", ">", ">=", "==", "!=") and env.path_of(l) is None and env.path_of(r) is not None \
                    and not (isinstance(l, ast.Call) and call_name(l) in ("len", "type")):
                okl, kl = self._lfold(l, fn, env.cls)
                if okl and isinstance(kl, (int, str)) and not isinstance(kl, bool):
                    l, r = r, l
                    op = {"<": ">", "<=": ">=", ">": "<", ">=": "<=", "==": "==", "!=": "!="}[op]
            # K in X / K not in X
            if op in ("in", "not in"):
                ok, k = self._lfold(l, fn, env.cls)
                px = env.path_of(r)
                if ok and isinstance(k, str) and px is not None:
                    return [Atom("present" if op == "in" else "absent", px + (k,))]
                if isinstance(l, ast.Name) and l.id in fn.params and px is not None \
                        and px and px[0].startswith("$"):
                    return [Atom("present" if op == "in" else "absent", px + ("$" + l.id,))]
                # param in [literals]
                if isinstance(l, ast.Name) and l.id in fn.params:
                    okr, vals = self._lfold(r, fn, env.cls)
                    if okr and isinstance(vals, (list, tuple)):
                        return [Atom("param", (l.id,), (op, tuple(vals)))]
                return None
            # type(E) == T
            if isinstance(l, ast.Call) and call_name(l) == "type" and l.args and op in ("==", "!="):
                p = env.path_of(l.args[0])
                t = r.id if isinstance(r, ast.Name) else None
                if t is None and isinstance(r, ast.Name) is False:
                    # type given through a parameter (has_field_of_type)
                    t = None
                if p is not None and isinstance(r, ast.Name):
                    tn = _TYPES.get(r.id, "$" + r.id if r.id in fn.params else r.id)
                    out = [Atom("type" if op == "==" else "nottype", p, (tn,))]
                    # the value read at a key has a type other than NoneType only when the key is there: d[k] raises otherwise,
                    # d.get(k) (no default) gives None
                    if op == "==" and r.id in _TYPES and r.id != "NoneType" and len(p) >= 1 and not p[-1].startswith("$") and p[-1] != "*" \
                            and p not in env.defaulted and (len(p) > 1 or not p[0].startswith("$")):
                        out.append(Atom("present", p))
                    return out
                return None
            # len(E) op c   /  len(E) op len(F)
            if isinstance(l, ast.Call) and call_name(l) == "len" and l.args:
                hp = self._len_of_hex(l, env)
                if hp is not None:
                    okc, c = self._lfold(r, fn, env.cls)
                    if okc and isinstance(c, int):
                        if op == ">" and c == 0:
                            return [Atom("hex", hp), Atom("hexnonempty", hp)]
                        if op == "==":
                            return [Atom("hex", hp), Atom("hexlen", hp, (c,))]
                    if isinstance(r, ast.Name) and r.id in fn.params and op == "==":
                        return [Atom("hex", hp), Atom("hexlen", hp, ("$" + r.id,))]
                    return None
                p = env.path_of(l.args[0])
                if p is None:
                    return None
                if isinstance(r, ast.Call) and call_name(r) == "len" and r.args:
                    q = env.path_of(r.args[0])
                    if q is not None and op == "==":
                        return [Atom("leneq", p, (".".join(q),))]
                    if q is not None and op == "!=":
                        return [Atom("lenne", p, (".".join(q),))]
                    return None
                okc, c = self._lfold(r, fn, env.cls)
                if okc and isinstance(c, int):
                    return [Atom("len", p, (op, c))]
                return None
            # E op const
            p = env.path_of(l)
            if p is not None:
                okc, c = self._lfold(r, fn, env.cls)
                if okc and isinstance(c, (int, str)) and not isinstance(c, bool):
                    if op in ("==", "!="):
                        return [Atom("eq" if op == "==" else "ne", p, (c,))]
                    return [Atom("range", p, (op, c))]
            return None
        if f.kind == "call":
            c = f.expr
            nm = call_name(c)
            if nm == "all" and f.pol and len(c.args) == 1 and isinstance(c.args[0], ast.GeneratorExp):
                ge = c.args[0]
                # bind generator targets to element paths
                roots = dict(env.roots)
                sub = PathEnv(self.A, fn, roots, env.cls)
                for gen in ge.generators:
                    ip = sub.path_of(gen.iter)
                    if ip is None or not isinstance(gen.target, ast.Name) or gen.ifs:
                        return None
                    sub.roots[gen.target.id] = ip + ("*",)
                conj = ge.elt.values if isinstance(ge.elt, ast.BoolOp) and isinstance(ge.elt.op, ast.And) \
                    else [ge.elt]
                out = []
                for e in conj:
                    for ff in make_facts("T", e, fn):
                        a = self.atoms_of_fact(ff, sub)
                        if a is None:
                            return None
                        out += a
                return out
            if nm == "isinstance" and f.pol:
                return None
            # helper predicate with a summary
            cs = [x for x in self.A.resolve_call(c, fn, env.cls) if x.fn is not None]
            if len(cs) == 1 and cs[0].fn.cls is None:
                callee = cs[0].fn
                if not f.pol:
                    return None
                summ = self.truthy_summary(callee)
                if summ is None:
                    return None
                # substitute parameters
                binding = {}
                ps = callee.params
                for i, a in enumerate(c.args):
                    if i < len(ps):
                        binding[ps[i]] = a
                for kw in c.keywords:
                    binding[kw.arg] = kw.value
                out = []
                for at in summ:
                    na = self._subst(at, binding, env)
                    if na is None:
                        return None
                    out.append(na)
                return out
            return None
        if f.kind == "truthy":
            return None
        return None

    def _subst(self, at, binding, env):
        P = self.P
        path = at.path
        if not path or not path[0].startswith("$"):
            return at
        root = path[0][1:]
        if root not in binding:
            return None
        base = env.path_of(binding[root])
        if base is None:
            return None
        rest = []
        for comp in path[1:]:
            if comp.startswith("$"):
                b = binding.get(comp[1:])
                ok, k = self._lfold(b, env.fn, env.fn.cls) if b is not None else (False, None)
                if not ok or not isinstance(k, str):
                    return None
                rest.append(k)
            else:
                rest.append(comp)
        args = []
        for a in at.args:
            if isinstance(a, str) and a.startswith("$"):
                b = binding.get(a[1:])
                if b is None:
                    return None
                if isinstance(b, ast.Name) and b.id in _TYPES:
                    args.append(_TYPES[b.id])
                    continue
                if isinstance(b, ast.Name) and b.id in env.fn.params:
                    args.append("$" + b.id)
                    continue
                ok, k = self._lfold(b, env.fn, env.fn.cls)
                if not ok:
                    return None
                args.append(unwrap(k))
            else:
                args.append(a)
        return Atom(at.kind, tuple(base) + tuple(rest), tuple(args))

    # -- validators ------------------------------------------------------------
    def validator_exits(self, fn, pc, roots=None, partition=None, depth=0):
        """[(code int, frozenset(Atom), return node, undecided [Fact])] for every
        `return` of validator fn evaluated in class pc.  `partition` maps
        parameter names to constants (what / mandatory)."""
        try:
            return self._validator_exits_dom(fn, pc, roots, partition, depth)
        except AnalysisError as e1:
            # shapes the dominance-based summary does not model (a result variable threaded through several sub-validators, merged
            # conditions): enumerate the validator's paths instead
            try:
                return self._validator_exits_paths(fn, pc, roots, partition, depth)
            except AnalysisError as e2:
                raise AnalysisError(f"{e1}; path enumeration: {e2}")

    def _validator_exits_paths(self, fn, pc, roots=None, partition=None, depth=0):
        """The same summary from the decision walk of the whole validator: one exit per path to a `return`, with the path's branch
        conditions (locals substituted) as atoms, `x >= OK` / `x < OK` on the result of a sub-validator call as that call's accepting /
        rejecting exits, and the returned value followed through the store."""
        from .decide import Walker, cmp_parts
        import itertools
        P, A = self.P, self.A
        partition = partition or {}
        if roots is None:
            ps = fn.params
            roots = {ps[1]: ()} if len(ps) > 1 else {}
        env = PathEnv(A, fn, roots, pc)
        g = A.cfg(fn, pc)
        out = []

        def sub_call(e, lf):
            """the sub-validator call a result name / expression stands for, or None"""
            for _ in range(4):
                if isinstance(e, ast.Name) and e.id in lf.bind:
                    e = lf.bind[e.id]
                elif isinstance(e, ast.Name) and e.id in lf.env:
                    e = lf.env[e.id]
                else:
                    break
            if isinstance(e, ast.Call) and any(x.fn is not None and x.fn.name.startswith("_validate") for x in A.resolve_call(e, fn, pc)):
                return e
            return None
        for lf in Walker(A, fn, pc, lambda e: None, max_leaves=400, max_steps=20000).walk(g.entry):
            if lf.kind != "return":
                if lf.kind in ("raise", "dead"):
                    continue
                raise AnalysisError(f"{fn.qualname}: path ends in `{lf.kind}`")
            atoms, undec, feasible = set(), [], True
            constraints = {}        # id(call) -> (call, True if known non-negative / False if known negative)
            for k, truth in lf.pc.items():
                if not k.startswith("?"):
                    continue
                try:
                    ce = ast.parse(k[1:], mode="eval").body
                except SyntaxError:
                    raise AnalysisError(f"{fn.qualname}: condition `{k[1:][:60]}` not parsable")
                cp = cmp_parts(ce)
                if cp is not None and norm(cp[2]).endswith("ERROR_CODE_OK") and cp[1] in ("<", ">=", ">", "<=", "==", "!="):
                    c_ = sub_call(cp[0], lf)
                    if c_ is not None and cp[1] in ("<", ">="):
                        nonneg = (cp[1] == ">=") == truth
                        if constraints.get(norm(c_), (None, nonneg))[1] != nonneg:
                            feasible = False        # `r >= OK` and `r < OK` of the same result on one path
                        constraints[norm(c_)] = (c_, nonneg)
                        continue
                for f in make_facts("T" if truth else "F", ce, fn, None):
                    a = self.atoms_of_fact(f, env)
                    if a is None:
                        pa = self._partition_eval(f, partition, fn, pc)
                        if pa is False:
                            feasible = False
                        elif pa is None:
                            if not (f.kind == "call" and not f.pol):
                                undec.append(f)
                        continue
                    for at in a:
                        if at.kind == "param":
                            pv = partition.get(at.path[0])
                            if pv is None:
                                undec.append(f)
                            elif (pv in at.args[1]) != (at.args[0] == "in"):
                                feasible = False
                        else:
                            atoms.add(at)
            if not feasible:
                continue
            # completed BIP32Path constructions on the path
            for kind, st, v in lf.effects:
                for c in ([x for x in ast.walk(v) if isinstance(x, ast.Call)] if isinstance(v, ast.AST) else []):
                    cs = [x for x in A.resolve_call(c, fn, pc) if x.fn is not None]
                    if len(cs) == 1 and cs[0].how == "ctor" and cs[0].self_cls is not None and cs[0].self_cls.name == "BIP32Path" and c.args:
                        p = env.path_of(c.args[0])
                        if p is not None:
                            atoms.add(Atom("bip32", p))
            # the value returned
            rv = lf.node.ast.value
            rv = lf.deep(rv, stop=tuple(n for n in lf.bind)) if rv is not None else None
            vals = None
            rc = sub_call(rv, lf) if rv is not None else None
            if rc is not None:
                cons = constraints.pop(norm(rc), (rc, None))[1]
                allv = self._call_values(rc, fn, pc, env, depth, negative_only=False)
                vals = [(c_, a_) for c_, a_ in allv if cons is None or (c_ >= 0) == cons]
            else:
                ok, cst = try_fold(P, rv, fn, pc) if rv is not None else (False, None)
                if not (ok and isinstance(cst, int)):
                    raise AnalysisError(f"{fn.qualname}: return value `{norm(rv) if rv is not None else None}` not understood on a path")
                vals = [(cst, frozenset())]
            # sub-validators known to have accepted / rejected on this path
            sub_sets = []
            for key, (c_, nonneg) in constraints.items():
                allv = self._call_values(c_, fn, pc, env, depth, negative_only=False)
                sel = [a_ for code_, a_ in allv if (code_ >= 0) == nonneg]
                if not sel:
                    feasible = False
                    break
                if nonneg:
                    sub_sets.append(sel)
            if not feasible:
                continue
            for code, extra in vals:
                if code >= 0 and sub_sets:
                    for combo in itertools.product(*sub_sets):
                        acc = set(atoms | extra)
                        for c in combo:
                            acc |= set(c)
                        out.append((code, frozenset(acc), lf.node.ast, undec))
                else:
                    out.append((code, frozenset(atoms | extra), lf.node.ast, undec))
        if not out:
            raise AnalysisError(f"{fn.qualname}: no exit understood")
        return out

    def _validator_exits_dom(self, fn, pc, roots=None, partition=None, depth=0):
        P, A = self.P, self.A
        partition = partition or {}
        if isinstance(fn.node, ast.Lambda):
            ok, v = try_fold(P, fn.node.body, fn, pc)
            if not ok:
                raise AnalysisError(f"{fn.qualname}: lambda validator not constant")
            return [(v, frozenset(), fn.node, [])]
        if roots is None:
            ps = fn.params
            roots = {ps[1]: ()} if len(ps) > 1 else {}
        env = PathEnv(A, fn, roots, pc)
        g = A.cfg(fn, pc)
        out = []
        exits = []
        for r in [n for n in A.own_nodes(fn) if isinstance(n, ast.Return)]:
            for rn in g.nodes_of(r):
                if not g.is_reachable(rn):
                    continue
                virt = self._virtual_returns(fn, pc, r, rn)
                exits += virt if virt is not None else [(r, rn, r.value, None)]
        for r, rn, rvalue, extra_node in exits:
            if True:
                atoms = set()
                undec = []
                feasible = True
                facts = self.F.local(fn, pc, rn)
                if extra_node is not None:
                    # the `return` statement of an inlined helper: its own path conditions hold as well
                    seen_t = {f.text() for f in facts}
                    facts = facts + [f for f in self.F.local(fn, pc, extra_node) if f.text() not in seen_t]
                    rn = extra_node
                for f in facts:
                    a = self.atoms_of_fact(f, env)
                    if a is None:
                        if f.kind == "call" and not f.pol:
                            continue
                        if f.kind == "cmp" and isinstance(f.left, ast.Name) and f.op in ("<", ">=") \
                                and norm(f.right).endswith("ERROR_CODE_OK"):
                            continue
                        pa = self._partition_eval(f, partition, fn, pc)
                        if pa is False:
                            feasible = False
                        elif pa is None:
                            undec.append(f)
                        continue
                    for at in a:
                        if at.kind == "param":
                            pv = partition.get(at.path[0])
                            if pv is None:
                                undec.append(f)
                            else:
                                holds = (pv in at.args[1]) == (at.args[0] == "in")
                                if not holds:
                                    feasible = False
                        else:
                            atoms.add(at)
                if not feasible:
                    continue
                # completed sub-validators / constructors before this return
                sub_sets = [frozenset()]
                for call, d in self.F.completed_calls(fn, pc, rn):
                    cs = [x for x in A.resolve_call(call, fn, pc) if x.fn is not None]
                    if len(cs) == 1 and cs[0].how == "ctor" and cs[0].self_cls is not None \
                            and cs[0].self_cls.name == "BIP32Path" and call.args:
                        p = env.path_of(call.args[0])
                        if p is not None:
                            atoms.add(Atom("bip32", p))
                vals = self._return_values(rvalue, fn, pc, partition, env, atoms, depth)
                subs = self.ok_facts_of_completed(fn, pc, rn, env)
                import itertools
                for code, extra in vals:
                    if code >= 0 and subs:
                        for combo in itertools.product(*subs):
                            acc = set(atoms | extra)
                            for c in combo:
                                acc |= set(c)
                            out.append((code, frozenset(acc), r, undec))
                    else:
                        out.append((code, frozenset(atoms | extra), r, undec))
        return out

    def _virtual_returns(self, fn, pc, r, rn):
        """`return X` where X only holds what the returns of an inlined helper stored: one exit per stored value,
        evaluated at the place where it was stored.  None when the return is an ordinary one."""
        if not isinstance(r.value, ast.Name):
            return None
        from .prov import Prov
        if getattr(self, "_pv", None) is None:
            self._pv = Prov(self.A)
        rds = self._pv.reaching(fn, pc, r.value.id, rn)
        if len(rds) < 2 or any(d.kind != "assign" or d.value is None for d in rds):
            return None
        if not r.value.id.startswith("_ret_"):
            return None
        return [(r, rn, d.value, d.cnode) for d in rds]

    def _partition_eval(self, f, partition, fn, pc):
        """Evaluate a fact over partition parameters -> True/False/None."""
        if f.kind == "truthy" and isinstance(f.expr, ast.Name) and f.expr.id in partition:
            return bool(partition[f.expr.id]) == f.pol
        return None

    def _return_values(self, v, fn, pc, partition, env, atoms, depth):
        """[(code, extra atoms)]"""
        P, A = self.P, self.A
        ok, c = try_fold(P, v, fn, pc)
        if ok and isinstance(c, int):
            return [(c, frozenset())]
        if isinstance(v, ast.IfExp):
            t = v.test
            pol = True
            while isinstance(t, ast.UnaryOp) and isinstance(t.op, ast.Not):
                t = t.operand
                pol = not pol
            if isinstance(t, ast.Name) and t.id in partition:
                branch = v.body if bool(partition[t.id]) == pol else v.orelse
                return self._return_values(branch, fn, pc, partition, env, atoms, depth)
        if isinstance(v, ast.Name):
            # `keyid_validation` = self._validate_key_id(request) returned when negative
            ds = defs_of(A, fn, v.id)
            if len(ds) == 1 and isinstance(ds[0].value, ast.Call):
                return self._call_values(ds[0].value, fn, pc, env, depth, negative_only=True)
        if isinstance(v, ast.Call):
            return self._call_values(v, fn, pc, env, depth, negative_only=False)
        raise AnalysisError(f"{fn.qualname}: return value `{norm(v)}` not understood (UNDECIDED)")

    def _call_values(self, call, fn, pc, env, depth, negative_only):
        A = self.A
        if depth > 4:
            raise AnalysisError("validator nesting too deep")
        cs = [x for x in A.resolve_call(call, fn, pc) if x.fn is not None]
        if len(cs) != 1:
            raise AnalysisError(f"{fn.qualname}: `{norm(call)}` does not resolve to one validator")
        callee = cs[0].fn
        part = {}
        ps = callee.params
        roots = {}
        for i, a in enumerate(call.args):
            idx = i + 1
            if idx < len(ps):
                p = env.path_of(a)
                if p is not None:
                    roots[ps[idx]] = p
                else:
                    ok, cv = try_fold(self.P, a, fn, pc)
                    if ok:
                        part[ps[idx]] = cv
        for kw in call.keywords:
            ok, cv = try_fold(self.P, kw.value, fn, pc)
            if ok:
                part[kw.arg] = cv
            else:
                p = env.path_of(kw.value)
                if p is not None:
                    roots[kw.arg] = p
        exits = self.validator_exits(callee, pc, roots=roots, partition=part, depth=depth + 1)
        out = []
        for code, atoms, r, undec in exits:
            if negative_only and code >= 0:
                continue
            out.append((code, atoms))
        return out

    def ok_facts_of_completed(self, fn, pc, cnode, env):
        """Atoms established by sub-validator calls whose *non-negative* result
        dominates cnode: pattern `x = self._validate_y(request...)`,
        `if x < OK: return x`."""
        A = self.A
        out = []
        facts = self.F.local(fn, pc, cnode)
        for f in facts:
            if f.kind == "cmp" and f.op == ">=" and isinstance(f.left, ast.Name):
                ds = defs_of(A, fn, f.left.id)
                if len(ds) > 1:
                    # keep the definition(s) that dominate this point; the closest one reaches it
                    g = A.cfg(fn, pc)
                    dom = [d for d in ds if any(g.dominates(x, cnode) for x in g.nodes_of(d))]
                    if dom:
                        doms = g.dominators(cnode)
                        dom.sort(key=lambda d: min(doms.index(x) for x in g.nodes_of(d) if x in doms))
                        ds = dom[:1]
                ok, k = try_fold(self.P, f.right, fn, pc)
                if len(ds) == 1 and isinstance(ds[0].value, ast.Call) and ok and k == 0:
                    vals = self._call_values(ds[0].value, fn, pc, env, 0, negative_only=False)
                    oks = [atoms for code, atoms in vals if code >= 0]
                    out.append(oks)
        return out
