"""CANON - canonical forms that make textual comparison insensitive to harmless rewrites:

  fold_consts   Names / attributes that are class or module constants -> their literal value
  canon_list    list-valued expression -> segments
                   item(e)            one element
                   rep(e, n)          n copies of e           ([e] * n, [e for _ in xs], append of a constant in a loop)
                   map(e)             one element per item of a sequence, e mentions ELEM(seq)
                                      (list(map(f, xs)), [f(x) for x in xs], append loops via PROV's REPEAT)
  len(x[:-1]) is written len(x)-1 (both give the empty list for an empty x when used as a repeat count)."""
import ast
import copy
import re
from .model import Unknown, AnalysisError, norm
from .layout import _subst_target


def fold_consts(P, expr, fn, cls=None, locals_=()):
    """Replace constant-valued Name/Attribute sub-expressions (not local names) by literals."""
    cls = cls if cls is not None else fn.cls
    locs = set(locals_)

    class T(ast.NodeTransformer):
        def _try(self, node):
            try:
                v = P.const_eval(node, fn.module, cls=cls)
            except (Unknown, AnalysisError, RecursionError):
                return None
            from .model import unwrap
            v = unwrap(v)
            if isinstance(v, (int, str, bytes)) and not isinstance(v, bool) or isinstance(v, bool):
                return ast.copy_location(ast.Constant(value=v), node)
            if isinstance(v, (list, tuple)) and len(v) <= 32:
                vs = [unwrap(x) for x in v]
                if all(isinstance(x, (int, str, bytes, bool)) for x in vs):
                    elts = [ast.Constant(value=x) for x in vs]
                    lit = ast.List(elts=elts, ctx=ast.Load()) if isinstance(v, list) else ast.Tuple(elts=elts, ctx=ast.Load())
                    return ast.copy_location(lit, node)
            return None

        def visit_Name(self, node):
            if isinstance(node.ctx, ast.Load) and node.id not in locs:
                r = self._try(node)
                if r is not None:
                    return r
            return node

        def visit_Attribute(self, node):
            if isinstance(node.ctx, ast.Load):
                base = node
                while isinstance(base, ast.Attribute):
                    base = base.value
                if isinstance(base, ast.Name) and base.id not in locs - {"self", "cls"}:
                    r = self._try(node)
                    if r is not None:
                        return r
                # self.ALIAS / cls.ALIAS where the class binds ALIAS to a dotted name from outside the repository: the dotted name itself
                if isinstance(node.value, ast.Name) and node.value.id in ("self", "cls") and cls is not None:
                    r_ = cls.lookup(node.attr)
                    if r_ is not None and r_[1] == "assign" and isinstance(r_[2], (ast.Name, ast.Attribute)):
                        src = r_[2]
                        b2 = src
                        while isinstance(b2, ast.Attribute):
                            b2 = b2.value
                        if isinstance(b2, ast.Name) and b2.id not in ("self", "cls"):
                            try:
                                from .model import ExtRef
                                if isinstance(P.const_eval(src, r_[0].module, cls=r_[0]), ExtRef):
                                    return ast.copy_location(copy.deepcopy(src), node)
                            except (Unknown, AnalysisError, RecursionError):
                                pass
            self.generic_visit(node)
            return node

        def visit_BinOp(self, node):
            self.generic_visit(node)
            if isinstance(node.left, ast.Constant) and isinstance(node.right, ast.Constant) \
                    and isinstance(node.left.value, int) and isinstance(node.right.value, int) \
                    and not isinstance(node.left.value, bool) and not isinstance(node.right.value, bool):
                try:
                    ops = {ast.Add: lambda a, b: a + b, ast.Sub: lambda a, b: a - b, ast.Mult: lambda a, b: a * b,
                           ast.LShift: lambda a, b: a << b if 0 <= b < 256 else None, ast.Pow: lambda a, b: a ** b if 0 <= b < 256 else None,
                           ast.BitOr: lambda a, b: a | b, ast.BitAnd: lambda a, b: a & b}
                    f = ops.get(type(node.op))
                    v = f(node.left.value, node.right.value) if f else None
                    if v is not None:
                        return ast.copy_location(ast.Constant(value=v), node)
                except Exception:
                    pass
            return node
    return T().visit(copy.deepcopy(expr))


def _mentions(e, name):
    return any(isinstance(n, ast.Name) and n.id == name for n in ast.walk(e))


def _targets(t):
    return [n.id for n in ast.walk(t) if isinstance(n, ast.Name)]


def _len_text(seq, text):
    """canonical text of len(seq)"""
    if isinstance(seq, ast.Subscript) and isinstance(seq.slice, ast.Slice) and seq.slice.step is None:
        lo, hi = seq.slice.lower, seq.slice.upper
        if lo is None and isinstance(hi, ast.UnaryOp) and isinstance(hi.op, ast.USub) and isinstance(hi.operand, ast.Constant):
            return f"len({text(seq.value)})-{hi.operand.value}"
        if lo is None and isinstance(hi, ast.Constant) and isinstance(hi.value, int) and hi.value < 0:
            return f"len({text(seq.value)})-{-hi.value}"
        if hi is None and isinstance(lo, ast.Constant) and isinstance(lo.value, int) and lo.value > 0:
            return f"len({text(seq.value)})-{lo.value}"
    return f"len({text(seq)})"


def _count_text(n, text):
    if isinstance(n, ast.BinOp) and isinstance(n.op, ast.Sub) and isinstance(n.right, ast.Constant):
        return f"{_count_text(n.left, text)}-{n.right.value}"
    if isinstance(n, ast.Call) and isinstance(n.func, ast.Name) and n.func.id == "len" and len(n.args) == 1:
        return _len_text(n.args[0], text)
    return text(n)


def canon_list(e, text=norm):
    """-> list of segment strings, or None when the expression is not a recognised list construction."""
    if isinstance(e, (ast.List, ast.Tuple)):
        out = []
        for x in e.elts:
            if isinstance(x, ast.Starred):
                sub = canon_list(x.value, text)
                if sub is None:
                    return None
                out += sub
            else:
                out.append(f"item({text(x)})")
        return out
    if isinstance(e, ast.BinOp) and isinstance(e.op, ast.Add):
        a, b = canon_list(e.left, text), canon_list(e.right, text)
        return None if a is None or b is None else a + b
    if isinstance(e, ast.BinOp) and isinstance(e.op, ast.Mult):
        lst, n = (e.left, e.right) if isinstance(e.left, (ast.List, ast.Tuple)) else (e.right, e.left)
        if isinstance(lst, (ast.List, ast.Tuple)) and len(lst.elts) == 1 and not isinstance(lst.elts[0], ast.Starred):
            return [f"rep({text(lst.elts[0])}, {_count_text(n, text)})"]
        return None
    if isinstance(e, (ast.ListComp, ast.GeneratorExp)) and len(e.generators) == 1 and not e.generators[0].ifs:
        gen = e.generators[0]
        if not any(_mentions(e.elt, t) for t in _targets(gen.target)):
            return [f"rep({text(e.elt)}, {_len_text(gen.iter, text)})"]
        elt = _subst_target(e.elt, gen.target, gen.iter)
        return None if elt is None else [f"map({text(elt)})"]
    if isinstance(e, ast.Call) and isinstance(e.func, ast.Name) and e.func.id in ("list", "tuple") and len(e.args) == 1 and not e.keywords:
        return canon_list(e.args[0], text)
    if isinstance(e, ast.Call) and isinstance(e.func, ast.Name) and e.func.id in ("list", "tuple") and not e.args:
        return []
    if isinstance(e, ast.Call) and isinstance(e.func, ast.Name) and e.func.id == "map" and len(e.args) == 2:
        f, xs = e.args
        elem = ast.Call(func=ast.Name(id="ELEM", ctx=ast.Load()), args=[xs], keywords=[])
        if isinstance(f, ast.Lambda) and len(f.args.args) == 1:
            body = _subst_target(f.body, ast.Name(id=f.args.args[0].arg, ctx=ast.Store()), xs)
            return None if body is None else [f"map({text(body)})"]
        return [f"map({text(ast.Call(func=f, args=[elem], keywords=[]))})"]
    if isinstance(e, ast.Call) and isinstance(e.func, ast.Name) and e.func.id == "REPEAT" and len(e.args) == 1:
        inner = e.args[0]
        if isinstance(inner, (ast.List, ast.Tuple)) and len(inner.elts) == 1:
            x = inner.elts[0]
            has_elem = any(isinstance(n, ast.Call) and isinstance(n.func, ast.Name) and n.func.id.startswith("ELEM") for n in ast.walk(x))
            return [f"map({text(x)})"] if has_elem else [f"rep({text(x)}, *)"]
        return None
    return None


def canon_list_text(s, text=norm):
    try:
        e = ast.parse(s, mode="eval").body
    except SyntaxError:
        return None
    return canon_list(e, text)


def hash_stream(L, text, ctors=("sha256", "hashlib.sha256")):
    """Canonical `<ctor>() | <bytes fed>` of a hash-object expression (PROV writes h.update(x) as h + x):
    sha256(X), sha256() followed by update(X) and sha256() updated in a loop over the pieces of X are one stream.
    L: a sa.layout.Layout."""
    e = ast.parse(text, mode="eval").body if isinstance(text, str) else text
    if isinstance(e, ast.Call) and norm(e.func) in ctors and len(e.args) == 1 and not e.keywords:
        return f"{norm(e.func)}() | {L.canon(e.args[0])}"
    return L.canon(e)


class _DictIter(ast.NodeTransformer):
    """ELEM(D.keys()) / ELEM(D) / ELEM0(D.items()) -> KEY(D) ;  ELEM1(D.items()) / D[KEY(D)] / ELEM(D.values()) -> VAL(D)
    (only for iteration markers, i.e. ELEM* calls produced by PROV)."""

    def __init__(self, dicts=()):
        self.dicts = set(dicts)

    def visit_Call(self, node):
        self.generic_visit(node)
        if isinstance(node.func, ast.Name) and node.func.id in ("ELEM0", "ELEM1") and len(node.args) == 1:
            # the pairs of D sorted by key (sorted(D.items()) sorts by key since keys are unique; key=lambda p: p[0] says so explicitly):
            # the value of such a pair is D[<key in sorted order>]
            a = node.args[0]
            if isinstance(a, ast.Call) and isinstance(a.func, ast.Name) and a.func.id == "sorted" and len(a.args) == 1 \
                    and isinstance(a.args[0], ast.Call) and isinstance(a.args[0].func, ast.Attribute) and a.args[0].func.attr == "items" and not a.args[0].args:
                kw = {k.arg: k.value for k in a.keywords}
                bykey = not kw or (set(kw) == {"key"} and isinstance(kw["key"], ast.Lambda) and len(kw["key"].args.args) == 1
                                   and norm(kw["key"].body) == f"{kw['key'].args.args[0].arg}[0]")
                if bykey:
                    d = a.args[0].func.value
                    keyel = ast.Call(func=ast.Name(id="ELEM", ctx=ast.Load()), args=[ast.Call(func=ast.Name(id="sorted", ctx=ast.Load()), args=[d], keywords=[])], keywords=[])
                    if node.func.id == "ELEM0":
                        return keyel
                    return ast.Subscript(value=d, slice=keyel, ctx=ast.Load())
        if isinstance(node.func, ast.Name) and node.func.id in ("ELEM", "ELEM0", "ELEM1") and len(node.args) == 1:
            a = node.args[0]
            if node.func.id == "ELEM" and norm(a) in self.dicts:
                # iterating a mapping is iterating its keys
                return ast.Call(func=ast.Name(id="KEY", ctx=ast.Load()), args=[a], keywords=[])
            if isinstance(a, ast.Call) and isinstance(a.func, ast.Attribute) and not a.args:
                d = a.func.value
                kind = a.func.attr
                if (kind == "keys" and node.func.id == "ELEM") or (kind == "items" and node.func.id == "ELEM0"):
                    return ast.Call(func=ast.Name(id="KEY", ctx=ast.Load()), args=[d], keywords=[])
                if (kind == "values" and node.func.id == "ELEM") or (kind == "items" and node.func.id == "ELEM1"):
                    return ast.Call(func=ast.Name(id="VAL", ctx=ast.Load()), args=[d], keywords=[])
        return node

    def visit_Subscript(self, node):
        self.generic_visit(node)
        s = node.slice
        if isinstance(s, ast.Call) and isinstance(s.func, ast.Name) and s.func.id == "KEY" and len(s.args) == 1 \
                and norm(s.args[0]) == norm(node.value):
            return ast.Call(func=ast.Name(id="VAL", ctx=ast.Load()), args=[node.value], keywords=[])
        # D[ELEM(sorted(D.keys()))] -> D[ELEM(sorted(D))]
        if isinstance(s, ast.Call) and isinstance(s.func, ast.Name) and s.func.id == "ELEM" and len(s.args) == 1:
            a = s.args[0]
            if isinstance(a, ast.Call) and isinstance(a.func, ast.Name) and a.func.id == "sorted" and len(a.args) == 1 and not a.keywords \
                    and isinstance(a.args[0], ast.Call) and isinstance(a.args[0].func, ast.Attribute) and a.args[0].func.attr == "keys" \
                    and norm(a.args[0].func.value) == norm(node.value):
                a.args[0] = a.args[0].func.value
        return node


def canon_dict_iter(text, dicts=()):
    """dicts: texts of expressions known to be mappings (so that ELEM(D) is a key of D)"""
    try:
        return ast.unparse(_DictIter(dicts).visit(ast.parse(text, mode="eval").body))
    except SyntaxError:
        return text


class NotClosed(Exception):
    pass


def ieval(e, env):
    """Evaluate a closed integer / boolean expression: constants, names bound in env, + - * // % << >> & | ^, comparisons
    (chained too), in / not in over displays and range(), and / or / not, conditional expressions, len() of displays,
    int/bool/abs/min/max.  Raises NotClosed for anything else.  (Constant folding over a finite domain, nothing is run.)"""
    if isinstance(e, ast.Constant):
        return e.value
    if isinstance(e, ast.Name):
        if e.id in env:
            return env[e.id]
        raise NotClosed(e.id)
    if isinstance(e, (ast.List, ast.Tuple, ast.Set)):
        return [ieval(x, env) for x in e.elts]
    if isinstance(e, ast.UnaryOp):
        v = ieval(e.operand, env)
        if isinstance(e.op, ast.Not):
            return not v
        if isinstance(e.op, ast.USub):
            return -v
        if isinstance(e.op, ast.Invert):
            return ~v
        return v
    if isinstance(e, ast.BinOp):
        a, b = ieval(e.left, env), ieval(e.right, env)
        ops = {ast.Add: lambda: a + b, ast.Sub: lambda: a - b, ast.Mult: lambda: a * b, ast.FloorDiv: lambda: a // b, ast.Mod: lambda: a % b,
               ast.LShift: lambda: a << b if 0 <= b < 512 else None, ast.RShift: lambda: a >> b, ast.BitAnd: lambda: a & b, ast.BitOr: lambda: a | b,
               ast.BitXor: lambda: a ^ b, ast.Pow: lambda: a ** b if 0 <= b < 512 else None}
        f = ops.get(type(e.op))
        if f is None:
            raise NotClosed(norm(e))
        try:
            return f()
        except Exception:
            raise NotClosed(norm(e))
    if isinstance(e, ast.BoolOp):
        if isinstance(e.op, ast.And):
            v = True
            for x in e.values:
                v = ieval(x, env)
                if not v:
                    return v
            return v
        v = False
        for x in e.values:
            v = ieval(x, env)
            if v:
                return v
        return v
    if isinstance(e, ast.IfExp):
        return ieval(e.body, env) if ieval(e.test, env) else ieval(e.orelse, env)
    if isinstance(e, ast.Compare):
        left = ieval(e.left, env)
        for o, r in zip(e.ops, e.comparators):
            right = ieval(r, env)
            fn = {ast.In: lambda: left in right, ast.NotIn: lambda: left not in right, ast.Eq: lambda: left == right, ast.NotEq: lambda: left != right,
                  ast.Lt: lambda: left < right, ast.LtE: lambda: left <= right, ast.Gt: lambda: left > right, ast.GtE: lambda: left >= right,
                  ast.Is: lambda: left is right, ast.IsNot: lambda: left is not right}.get(type(o))
            if fn is None:
                raise NotClosed(norm(e))
            try:
                if not fn():
                    return False
            except TypeError:
                raise NotClosed(norm(e))
            left = right
        return True
    if isinstance(e, ast.Call) and isinstance(e.func, ast.Name) and not e.keywords:
        args = [ieval(a, env) for a in e.args]
        if e.func.id == "range" and 1 <= len(args) <= 3:
            return range(*args)
        if e.func.id in ("int", "bool", "abs", "min", "max", "len") and args:
            try:
                return {"int": int, "bool": bool, "abs": abs, "min": min, "max": max, "len": len}[e.func.id](*args)
            except Exception:
                raise NotClosed(norm(e))
    raise NotClosed(norm(e))


# ---------------------------------------------------------------------------------------------------------------
# string templates: f-strings, "..".format(..), ".." % (..) and + concatenation as one list of literal / value parts
# ---------------------------------------------------------------------------------------------------------------
def template_parts(expr, strip_str=True):
    """[("lit", text) | ("expr", normalised text)] for a string-building expression whose template is a literal (after constant folding):
    f"..{a}..", "..{}..".format(a), "..{n}..".format(n=a), "..%s.." % a / % (a, b), and `+` of such parts.  str(a) inside a value position is
    a (both render the decimal / the string itself for the int and str values the analysed code formats).  None when the shape is not one
    of these (conversions, format specs, attribute lookups inside fields, %d with flags ...)."""
    import string

    def val(e):
        if strip_str and isinstance(e, ast.Call) and isinstance(e.func, ast.Name) and e.func.id == "str" and len(e.args) == 1 and not e.keywords:
            e = e.args[0]
        if isinstance(e, ast.Constant) and isinstance(e.value, str):
            return ("lit", e.value)
        return ("expr", norm(e))

    def go(e):
        if isinstance(e, ast.Constant) and isinstance(e.value, str):
            return [("lit", e.value)]
        if isinstance(e, ast.JoinedStr):
            out = []
            for v in e.values:
                if isinstance(v, ast.Constant):
                    out.append(("lit", v.value))
                elif isinstance(v, ast.FormattedValue) and v.conversion == -1 and v.format_spec is None:
                    out.append(val(v.value))
                else:
                    return None
            return out
        if isinstance(e, ast.BinOp) and isinstance(e.op, ast.Add):
            a, b = go(e.left), go(e.right)
            if a is None and b is None:
                return None
            # `x + ".sig"`: concatenated with a string-building part, the other operand is a string value itself
            if a is None:
                a = [val(e.left)]
            if b is None:
                b = [val(e.right)]
            return a + b
        if isinstance(e, ast.Call) and isinstance(e.func, ast.Attribute) and e.func.attr == "format" and isinstance(e.func.value, ast.Constant) \
                and isinstance(e.func.value.value, str) and not any(isinstance(a, ast.Starred) for a in e.args) and all(k.arg for k in e.keywords):
            out, auto = [], 0
            kw = {k.arg: k.value for k in e.keywords}
            try:
                fields = list(string.Formatter().parse(e.func.value.value))
            except ValueError:
                return None
            for lit, name, spec, conv in fields:
                if lit:
                    out.append(("lit", lit))
                if name is None:
                    continue
                if spec or conv:
                    return None
                if name == "":
                    if auto >= len(e.args):
                        return None
                    out.append(val(e.args[auto]))
                    auto += 1
                elif name.isdigit():
                    if int(name) >= len(e.args):
                        return None
                    out.append(val(e.args[int(name)]))
                elif name in kw:
                    out.append(val(kw[name]))
                else:
                    return None
            return out
        if isinstance(e, ast.BinOp) and isinstance(e.op, ast.Mod) and isinstance(e.left, ast.Constant) and isinstance(e.left.value, str):
            args = list(e.right.elts) if isinstance(e.right, ast.Tuple) else [e.right]
            pieces = re.split(r"(%[sd%])", e.left.value)
            if any("%" in p for p in pieces[0::2]):
                return None
            out, i = [], 0
            for p in pieces:
                if p == "%%":
                    out.append(("lit", "%"))
                elif p in ("%s", "%d"):
                    if i >= len(args):
                        return None
                    out.append(val(args[i]))
                    i += 1
                elif p:
                    out.append(("lit", p))
            return out if i == len(args) else None
        return None
    parts = go(expr)
    if parts is None:
        return None
    merged = []
    for k, t in parts:
        if k == "lit" and merged and merged[-1][0] == "lit":
            merged[-1] = ("lit", merged[-1][1] + t)
        elif not (k == "lit" and t == ""):
            merged.append((k, t))
    return merged


# ---------------------------------------------------------------------------------------------------------------
# integer sums and membership displays in one spelling
# ---------------------------------------------------------------------------------------------------------------
class _SumCanon(ast.NodeTransformer):
    """a + 2 + b[3] + 4  ->  6 + a + b[3]  (constants folded and first, the other terms in the order of their text; subtraction of constants
    folded too); `x in (a, b)` -> `x in [a, b]`.  Only + / - chains are touched: their value does not depend on the spelling."""

    def _terms(self, e, sign, out):
        if isinstance(e, ast.BinOp) and isinstance(e.op, (ast.Add, ast.Sub)):
            self._terms(e.left, sign, out)
            self._terms(e.right, sign if isinstance(e.op, ast.Add) else -sign, out)
        else:
            out.append((sign, self.visit(e)))

    def visit_BinOp(self, node):
        if not isinstance(node.op, (ast.Add, ast.Sub)):
            self.generic_visit(node)
            return node
        terms = []
        self._terms(node, 1, terms)
        # only integer-looking chains: at least one int constant or a len()/index term and no string / bytes constant
        if any(isinstance(t, ast.Constant) and not (isinstance(t.value, int) and not isinstance(t.value, bool)) for _, t in terms):
            return ast.copy_location(self._rebuild_plain(terms), node)
        const = sum(s * t.value for s, t in terms if isinstance(t, ast.Constant))
        rest = sorted([(s, t) for s, t in terms if not isinstance(t, ast.Constant)], key=lambda st: (st[0] < 0, norm(st[1])))
        if not any(isinstance(t, ast.Constant) for _, t in terms) and len(rest) == len(terms) and all(s > 0 for s, _ in rest) and False:
            return node
        acc = None
        if const != 0 or not rest:
            acc = ast.Constant(value=const)
        for s, t in rest:
            if acc is None:
                acc = t if s > 0 else ast.UnaryOp(op=ast.USub(), operand=t)
            else:
                acc = ast.BinOp(left=acc, op=ast.Add() if s > 0 else ast.Sub(), right=t)
        return ast.copy_location(acc, node)

    def _rebuild_plain(self, terms):
        acc = None
        for s, t in terms:
            acc = t if acc is None else ast.BinOp(left=acc, op=ast.Add() if s > 0 else ast.Sub(), right=t)
        return acc

    def visit_Call(self, node):
        self.generic_visit(node)
        # <pattern>.match(s).end() is the length of what was matched (match() anchors at position 0): len(<..>.group(0))
        if isinstance(node.func, ast.Attribute) and node.func.attr == "end" and not node.args and not node.keywords \
                and isinstance(node.func.value, ast.Call) and isinstance(node.func.value.func, ast.Attribute) and node.func.value.func.attr == "match":
            grp = ast.Call(func=ast.Attribute(value=node.func.value, attr="group", ctx=ast.Load()), args=[ast.Constant(value=0)], keywords=[])
            return ast.copy_location(ast.Call(func=ast.Name(id="len", ctx=ast.Load()), args=[grp], keywords=[]), node)
        return node

    def visit_Compare(self, node):
        self.generic_visit(node)
        if len(node.ops) == 1 and isinstance(node.ops[0], (ast.In, ast.NotIn)) and isinstance(node.comparators[0], ast.Tuple):
            node.comparators[0] = ast.copy_location(ast.List(elts=node.comparators[0].elts, ctx=ast.Load()), node.comparators[0])
        return node


class _SliceCompose(ast.NodeTransformer):
    """Views into one buffer written relative to a remainder (`rest = r[1 + n:]; x = rest[1:1 + rest[0]]`) become absolute:
    V[a:][b:c] -> V[a + b:a + c], V[a:][b:] -> V[a + b:], V[a:][i] -> V[a + i]  for offsets that cannot be negative (non-negative constants, byte
    values V[k], len(..), sums of those); bytes(V[a:b]) is V[a:b] (same content).  Equal for every buffer: Python clamps both forms alike."""

    @staticmethod
    def _nonneg(e):
        if e is None:
            return True
        if isinstance(e, ast.Constant):
            return isinstance(e.value, int) and not isinstance(e.value, bool) and e.value >= 0
        if isinstance(e, ast.BinOp) and isinstance(e.op, ast.Add):
            return _SliceCompose._nonneg(e.left) and _SliceCompose._nonneg(e.right)
        if isinstance(e, ast.Subscript) and not isinstance(e.slice, ast.Slice):
            return True          # an element of a bytes-like buffer
        if isinstance(e, ast.Call) and isinstance(e.func, ast.Name) and e.func.id == "len":
            return True
        return False

    @staticmethod
    def _add(a, b):
        if a is None:
            return b
        if b is None:
            return a
        return ast.BinOp(left=a, op=ast.Add(), right=b)

    def visit_Call(self, node):
        self.generic_visit(node)
        if isinstance(node.func, ast.Name) and node.func.id in ("bytes", "bytearray") and len(node.args) == 1 and not node.keywords \
                and isinstance(node.args[0], ast.Subscript) and isinstance(node.args[0].slice, ast.Slice):
            return node.args[0]
        return node

    def visit_Subscript(self, node):
        self.generic_visit(node)
        v = node.value
        if isinstance(v, ast.Subscript) and isinstance(v.slice, ast.Slice) and v.slice.upper is None and v.slice.step is None and self._nonneg(v.slice.lower):
            a = v.slice.lower or ast.Constant(value=0)
            if isinstance(node.slice, ast.Slice):
                if node.slice.step is None and self._nonneg(node.slice.lower) and self._nonneg(node.slice.upper):
                    lo = self._add(a, node.slice.lower)
                    hi = self._add(a, node.slice.upper) if node.slice.upper is not None else None
                    return ast.copy_location(ast.Subscript(value=v.value, slice=ast.Slice(lower=lo, upper=hi, step=None), ctx=node.ctx), node)
            elif self._nonneg(node.slice):
                return ast.copy_location(ast.Subscript(value=v.value, slice=self._add(a, node.slice), ctx=node.ctx), node)
        return node


def compose_slices(text):
    """text with nested remainder-relative views made absolute and integer sums canonical"""
    try:
        e = ast.parse(text, mode="eval").body
    except SyntaxError:
        return text
    try:
        e = ast.parse(canon_sums(text), mode="eval").body      # .match(s).end() -> len(.. .group(0)) first: a length, hence not negative
        e = ast.fix_missing_locations(_SliceCompose().visit(e))
        return canon_sums(ast.unparse(e))
    except Exception:
        return text


def canon_sums(text):
    """canonical spelling of the integer sums (indices, slice bounds, lengths) and membership displays inside an expression text"""
    try:
        e = ast.parse(text, mode="eval").body
    except SyntaxError:
        return text
    try:
        return ast.unparse(ast.fix_missing_locations(_SumCanon().visit(e)))
    except Exception:
        return text
