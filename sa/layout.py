"""Byte-layout normaliser: turns a (provenance-expanded) byte-construction
expression into a canonical layout string.

  a + b                          ->  A | B
  bytes([x, y])                  ->  u8(x) | u8(y)
  x.to_bytes(n, 'little'|...)    ->  u<8n>le(x) / u<8n>be(x)   (s.. when signed)
  struct.pack('<I', x)           ->  u32le(x)      ('<B','>B','<H','>H','<I','>I','<Q','>Q')
  bytes.fromhex(x)               ->  hex(x)
  b''                            ->  (nothing)
  b"".join([a, b])               ->  A | B
  len(<layout>)                  ->  len(<canonical layout>)
  integer arithmetic             ->  constants folded, operands sorted for +
Anything else is kept as normalised source text."""
import ast
import re
from .model import AnalysisError


def _kw(call, name, pos):
    for k in call.keywords:
        if k.arg == name:
            return k.value
    if pos is not None and pos < len(call.args):
        return call.args[pos]
    return None


_FMT = {"B": 8, "H": 16, "I": 32, "L": 32, "Q": 64}


class Layout:
    def __init__(self, const_fold=None):
        """const_fold(ast expr) -> (ok, value) folds repo constants."""
        self.fold = const_fold or (lambda e: (False, None))

    def canon(self, src):
        if isinstance(src, str):
            try:
                e = ast.parse(src, mode="eval").body
            except SyntaxError as ex:
                raise AnalysisError(f"layout: cannot parse `{src[:80]}`: {ex}")
        else:
            e = src
        parts = self.parts(e)
        return " | ".join(p for p in parts if p != "")

    def parts(self, e):
        if isinstance(e, ast.BinOp) and isinstance(e.op, ast.Add) and self._is_bytes(e):
            return self.parts(e.left) + self.parts(e.right)
        if isinstance(e, ast.Constant) and isinstance(e.value, bytes):
            if 0 < len(e.value) <= 8:
                return [f"u8({b})" for b in e.value]        # a short literal is its bytes (bytes([0]) and b"\x00" are one thing)
            return [] if e.value == b"" else [f"const({e.value.hex()})"]
        if isinstance(e, (ast.Name, ast.Attribute)):
            # a module / class constant holding bytes
            try:
                okc, cv = self.fold(e)
            except Exception:
                okc, cv = False, None
            if okc and isinstance(cv, bytes) and len(cv) <= 8:
                return [f"u8({b})" for b in cv]
        if isinstance(e, ast.Call):
            f = e.func
            if isinstance(f, ast.Name) and f.id == "REPEAT" and len(e.args) == 1:
                return [f"repeat({self.canon(e.args[0])})"]
            # bytes([...])
            if isinstance(f, ast.Name) and f.id == "bytes" and len(e.args) == 1 and isinstance(e.args[0], ast.List):
                return [f"u8({self.intexpr(x)})" for x in e.args[0].elts]
            if isinstance(f, ast.Name) and f.id == "bytes" and len(e.args) == 0:
                return []
            # zero fill: bytes([0] * n) | bytes(n) with an integer n | bytearray(n)
            if isinstance(f, ast.Name) and f.id in ("bytes", "bytearray") and len(e.args) == 1 and not e.keywords:
                a0 = e.args[0]
                if isinstance(a0, ast.BinOp) and isinstance(a0.op, ast.Mult):
                    lst, n = (a0.left, a0.right) if isinstance(a0.left, ast.List) else (a0.right, a0.left)
                    if isinstance(lst, ast.List) and len(lst.elts) == 1 and isinstance(lst.elts[0], ast.Constant) and lst.elts[0].value == 0:
                        return [f"zeros({self.intexpr(n)})"]
                okn, nv = self._int(a0)
                if okn:
                    return [f"zeros({nv})"]
                # byte reversal: bytes(reversed(x))
                if isinstance(a0, ast.Call) and isinstance(a0.func, ast.Name) and a0.func.id == "reversed" and len(a0.args) == 1:
                    return [f"rev({self.canon(a0.args[0])})"]
            if isinstance(f, ast.Attribute) and f.attr == "to_bytes":
                w = _kw(e, "length", 0)
                bo = _kw(e, "byteorder", 1)
                sg = _kw(e, "signed", 2)
                ok, wv = self._int(w)
                if not ok:
                    return [f"uint?({ast.unparse(e)})"]
                order = bo.value if isinstance(bo, ast.Constant) else None
                if order is None and bo is not None:
                    okb, bv = self.fold(bo)
                    order = bv if okb else "?"
                if bo is None:
                    order = "big"
                signed = isinstance(sg, ast.Constant) and sg.value is True
                end = {"little": "le", "big": "be"}.get(order, "??")
                if wv == 1:
                    end = "" if not signed else end
                    return [f"{'s' if signed else 'u'}8({self.intexpr(f.value)})"]
                return [f"{'s' if signed else 'u'}{8 * wv}{end}({self.intexpr(f.value)})"]
            if isinstance(f, ast.Attribute) and f.attr == "fromhex" and isinstance(f.value, ast.Name) \
                    and f.value.id == "bytes" and len(e.args) == 1:
                return [f"hex({self.text(e.args[0])})"]
            if isinstance(f, ast.Attribute) and f.attr == "pack" and isinstance(f.value, ast.Name) \
                    and f.value.id == "struct" and e.args:
                fmt = e.args[0]
                fs = None
                if isinstance(fmt, ast.Constant) and isinstance(fmt.value, str):
                    fs = fmt.value
                elif isinstance(fmt, ast.JoinedStr):
                    try:
                        fs = "".join(v.value if isinstance(v, ast.Constant) else "{" + ast.unparse(v.value) + "}"
                                     for v in fmt.values)
                    except Exception:
                        fs = None
                if fs is not None:
                    end = "le" if fs.startswith("<") else ("be" if fs.startswith(">") or fs.startswith("!") else None)
                    body = fs.lstrip("<>!=@")
                    if fs.startswith("{"):
                        end = "{" + fs[1:fs.index("}")] + "}"
                        body = fs[fs.index("}") + 1:]
                    if len(body) == len(e.args) - 1 and all(c in _FMT for c in body) and end is not None:
                        out = []
                        for c, a in zip(body, e.args[1:]):
                            bits = _FMT[c]
                            out.append(f"u{bits}{'' if bits == 8 else end}({self.intexpr(a)})")
                        return out
                    # a counted item fed by a starred sequence: pack(f"<B{len(xs)}I", n, *xs) = u8(n) | one u32 per element of xs
                    toks = re.findall(r"(\{[^{}]*\}|\d+)?([A-Za-z])", body)
                    if end is not None and toks and "".join((c or "") + k for c, k in toks) == body and all(k in _FMT for _, k in toks):
                        out, args, okp = [], list(e.args[1:]), True
                        for cnt, k in toks:
                            bits = _FMT[k]
                            if not args:
                                okp = False
                                break
                            a = args.pop(0)
                            if cnt and cnt.startswith("{") and isinstance(a, ast.Starred):
                                seq = a.value
                                if cnt[1:-1].replace(" ", "") != f"len({ast.unparse(seq)})".replace(" ", ""):
                                    okp = False
                                    break
                                if isinstance(seq, (ast.ListComp, ast.GeneratorExp)) and len(seq.generators) == 1 and not seq.generators[0].ifs:
                                    elt = _subst_target(seq.elt, seq.generators[0].target, seq.generators[0].iter)
                                else:
                                    elt = ast.Call(func=ast.Name(id="ELEM", ctx=ast.Load()), args=[seq], keywords=[])
                                if elt is None:
                                    okp = False
                                    break
                                out.append(f"repeat(u{bits}{'' if bits == 8 else end}({self.intexpr(elt)}))")
                            elif not cnt and not isinstance(a, ast.Starred):
                                out.append(f"u{bits}{'' if bits == 8 else end}({self.intexpr(a)})")
                            else:
                                okp = False
                                break
                        if okp and not args:
                            return out
            if isinstance(f, ast.Attribute) and f.attr == "join" and isinstance(f.value, ast.Constant) \
                    and f.value.value == b"" and len(e.args) == 1:
                lp = self.list_parts(e.args[0])
                if lp is not None:
                    return lp
        if isinstance(e, ast.BinOp) and isinstance(e.op, ast.Mult):
            c, n = (e.left, e.right) if isinstance(e.left, ast.Constant) else (e.right, e.left)
            if isinstance(c, ast.Constant) and c.value == b"\x00":
                return [f"zeros({self.intexpr(n)})"]
        if isinstance(e, ast.Subscript) and isinstance(e.slice, ast.Slice) and e.slice.lower is None and e.slice.upper is None \
                and isinstance(e.slice.step, ast.UnaryOp) and isinstance(e.slice.step.op, ast.USub) \
                and isinstance(e.slice.step.operand, ast.Constant) and e.slice.step.operand.value == 1:
            return [f"rev({self.canon(e.value)})"]
        return [self.text(e)]

    def list_parts(self, e):
        """Layout parts of the concatenation of the items of a list-valued expression:
        [a, b] | (a, b) | L1 + L2 | [E for x in XS] | (E for x in XS) | list(..)/tuple(..) of those |
        map(F, XS) | <init list> + REPEAT([item]) (append loops); None when not understood."""
        if isinstance(e, (ast.List, ast.Tuple)):
            out = []
            for x in e.elts:
                if isinstance(x, ast.Starred):
                    sub = self.list_parts(x.value)
                    if sub is None:
                        return None
                    out += sub
                else:
                    out += self.parts(x)
            return out
        if isinstance(e, ast.BinOp) and isinstance(e.op, ast.Add):
            a, b = self.list_parts(e.left), self.list_parts(e.right)
            if a is None or b is None:
                return None
            return a + b
        if isinstance(e, (ast.ListComp, ast.GeneratorExp)) and len(e.generators) == 1 and not e.generators[0].ifs \
                and not e.generators[0].is_async:
            gen = e.generators[0]
            elt = _subst_target(e.elt, gen.target, gen.iter)
            if elt is None:
                return None
            inner = self.canon(elt)
            return [f"repeat({inner})"]
        if isinstance(e, ast.Call) and isinstance(e.func, ast.Name) and e.func.id in ("list", "tuple") and len(e.args) == 1:
            return self.list_parts(e.args[0])
        if isinstance(e, ast.Call) and isinstance(e.func, ast.Name) and e.func.id == "map" and len(e.args) == 2:
            fn_, xs = e.args
            elem = ast.Call(func=ast.Name(id="ELEM", ctx=ast.Load()), args=[xs], keywords=[])
            if isinstance(fn_, ast.Lambda) and len(fn_.args.args) == 1:
                body = _subst_target(fn_.body, ast.Name(id=fn_.args.args[0].arg, ctx=ast.Store()), xs)
                return None if body is None else [f"repeat({self.canon(body)})"]
            return [f"repeat({self.canon(ast.Call(func=fn_, args=[elem], keywords=[]))})"]
        if isinstance(e, ast.Call) and isinstance(e.func, ast.Name) and e.func.id == "REPEAT" and len(e.args) == 1:
            inner = self.list_parts(e.args[0])
            if inner is None:
                return None
            return [f"repeat({' | '.join(p for p in inner if p != '')})"]
        return None

    def _is_bytes(self, e):
        """Heuristic: a `+` chain is a byte concatenation if any leaf is a
        recognised byte constructor; otherwise integer arithmetic."""
        leaves = []

        def walk(x):
            if isinstance(x, ast.BinOp) and isinstance(x.op, ast.Add):
                walk(x.left)
                walk(x.right)
            else:
                leaves.append(x)
        walk(e)
        for l in leaves:
            if isinstance(l, ast.Constant) and isinstance(l.value, bytes):
                return True
            if isinstance(l, (ast.Name, ast.Attribute)):
                try:
                    okc, cv = self.fold(l)
                except Exception:
                    okc, cv = False, None
                if okc and isinstance(cv, bytes):
                    return True
            if isinstance(l, ast.Call):
                f = l.func
                if isinstance(f, ast.Name) and f.id in ("bytes", "REPEAT"):
                    return True
                if isinstance(f, ast.Attribute) and f.attr in ("to_bytes", "fromhex", "pack", "to_binary",
                                                               "join", "digest", "serialize", "to_string"):
                    return True
        return False

    def _int(self, e):
        if e is None:
            return False, None
        if isinstance(e, ast.Constant) and isinstance(e.value, int):
            return True, e.value
        ok, v = self.fold(e)
        if ok and isinstance(v, int):
            return True, v
        return False, None

    def intexpr(self, e):
        """Canonical text of an integer expression (constants folded)."""
        ok, v = self._int(e)
        if ok:
            return str(v)
        if isinstance(e, ast.BinOp) and isinstance(e.op, ast.Add) and not self._is_bytes(e):
            terms = []

            def walk(x):
                if isinstance(x, ast.BinOp) and isinstance(x.op, ast.Add):
                    walk(x.left)
                    walk(x.right)
                else:
                    terms.append(x)
            walk(e)
            const = 0
            rest = []
            for t in terms:
                okt, tv = self._int(t)
                if okt:
                    const += tv
                else:
                    rest.append(self.intexpr(t))
            rest.sort()
            return "+".join(([str(const)] if const else []) + rest) or "0"
        if isinstance(e, ast.Call) and isinstance(e.func, ast.Name) and e.func.id == "len" and len(e.args) == 1:
            inner = self.canon(e.args[0])
            return f"len({inner})" if inner else "0"
        return self.text(e)

    def text(self, e):
        ok, v = self.fold(e) if not isinstance(e, ast.Constant) else (False, None)
        if ok and isinstance(v, (int,)) and not isinstance(v, bool):
            return str(v)
        if isinstance(e, ast.Call) and isinstance(e.func, ast.Name) and e.func.id == "len" and len(e.args) == 1:
            return self.intexpr(e)
        if isinstance(e, ast.Call):
            # normalise nested byte constructors inside arguments
            f = ast.unparse(e.func)
            args = [self.canon(a) if self._looks_bytes(a) else self.text(a) for a in e.args]
            kws = [f"{k.arg}={self.text(k.value)}" for k in e.keywords]
            return f"{f}({', '.join(args + kws)})"
        if isinstance(e, ast.Subscript):
            sl = e.slice
            if isinstance(sl, ast.Slice):
                lo = self.intexpr(sl.lower) if sl.lower is not None else ""
                hi = self.intexpr(sl.upper) if sl.upper is not None else ""
                if hi == f"len({self.text(e.value)})":
                    hi = ""      # x[a:len(x)] is x[a:]
                if lo == "0":
                    lo = ""
                st = ":" + self.intexpr(sl.step) if sl.step is not None else ""
                return f"{self.text(e.value)}[{lo}:{hi}{st}]"
            return f"{self.text(e.value)}[{self.intexpr(sl)}]"
        if isinstance(e, ast.Attribute):
            return f"{self.text(e.value)}.{e.attr}"
        return ast.unparse(e)

    def _looks_bytes(self, a):
        if isinstance(a, ast.BinOp) and isinstance(a.op, ast.Add):
            return self._is_bytes(a)
        if isinstance(a, ast.Call):
            f = a.func
            return (isinstance(f, ast.Name) and f.id == "bytes") or \
                (isinstance(f, ast.Attribute) and f.attr in ("to_bytes", "fromhex"))
        return isinstance(a, ast.Constant) and isinstance(a.value, bytes)


def _subst_target(expr, target, iterable):
    """expr with the comprehension / loop target replaced by ELEM(iterable) (ELEMi for tuple targets)."""
    import copy
    m = {}
    if isinstance(target, ast.Name):
        m[target.id] = ast.Call(func=ast.Name(id="ELEM", ctx=ast.Load()), args=[iterable], keywords=[])
    elif isinstance(target, (ast.Tuple, ast.List)) and all(isinstance(x, ast.Name) for x in target.elts):
        for i, x in enumerate(target.elts):
            m[x.id] = ast.Call(func=ast.Name(id=f"ELEM{i}", ctx=ast.Load()), args=[iterable], keywords=[])
    else:
        return None

    class T(ast.NodeTransformer):
        def visit_Name(self, node):
            if isinstance(node.ctx, ast.Load) and node.id in m:
                return copy.deepcopy(m[node.id])
            return node
    return T().visit(copy.deepcopy(expr))
