"""Repository-specific static analyser for rsksmart/rsk-powhsm (stdlib ast only)."""
