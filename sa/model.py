"""PM - program model and restricted constant evaluation.

Parses every production module under <repo>/middleware (tests excluded) with the
stdlib ``ast`` module.  Nothing from the repository is imported or executed.
"""
import ast
import os
import string as _string


class AnalysisError(Exception):
    """The analysis itself cannot proceed (vanished anchor, unknown idiom...).
    Mapped to exit status 2 by the driver, never to a VIOLATION."""


class Unknown(Exception):
    """Constant folding met a non-constant."""


# ---------------------------------------------------------------------------
# value domain of the constant folder

class ClassRef:
    def __init__(self, cls):
        self.cls = cls

    def __repr__(self):
        return f"<class {self.cls.qualname}>"

    def __eq__(self, o):
        return isinstance(o, ClassRef) and o.cls is self.cls

    def __hash__(self):
        return hash(("ClassRef", self.cls.qualname))


class ModuleRef:
    def __init__(self, mod):
        self.mod = mod

    def __repr__(self):
        return f"<module {self.mod.name}>"


class FuncRef:
    def __init__(self, func, bound_cls=None):
        self.func = func
        self.bound_cls = bound_cls

    def __repr__(self):
        return f"<func {self.func.qualname}>"


class ExtRef:
    """Something imported from outside the repository (dotted name)."""

    def __init__(self, dotted):
        self.dotted = dotted

    def __repr__(self):
        return f"<ext {self.dotted}>"

    def __eq__(self, o):
        return isinstance(o, ExtRef) and o.dotted == self.dotted

    def __hash__(self):
        return hash(("ExtRef", self.dotted))


class EnumMember:
    def __init__(self, cls, name, value, extra=None):
        self.cls = cls
        self.name = name
        self.value = value
        self.extra = extra or {}

    def __repr__(self):
        v = hex(self.value) if isinstance(self.value, int) and self.value > 9 else repr(self.value)
        return f"{self.cls.name}.{self.name}={v}"

    def __eq__(self, o):
        if isinstance(o, EnumMember):
            return self.value == o.value and self.cls is o.cls
        return self.value == o

    def __hash__(self):
        return hash(self.value)

    def __index__(self):
        if isinstance(self.value, int):
            return self.value
        raise TypeError


class Obj:
    """A constructor record, e.g. HSM2FirmwareVersion(5, 4, 1)."""

    def __init__(self, ctor, args, kwargs=None):
        self.ctor = ctor
        self.args = tuple(args)
        self.kwargs = dict(kwargs or {})

    def __repr__(self):
        return f"{self.ctor}{self.args}"

    def __eq__(self, o):
        return isinstance(o, Obj) and (self.ctor, self.args) == (o.ctor, o.args)

    def __hash__(self):
        return hash((self.ctor, self.args))


def unwrap(v):
    return v.value if isinstance(v, EnumMember) else v


_STDLIB_CONSTS = {
    "string.ascii_letters": _string.ascii_letters,
    "string.digits": _string.digits,
    "string.ascii_lowercase": _string.ascii_lowercase,
    "string.ascii_uppercase": _string.ascii_uppercase,
    "string.hexdigits": _string.hexdigits,
}


# ---------------------------------------------------------------------------

class FunctionInfo:
    def __init__(self, name, qualname, module, cls, node, parent=None):
        self.name = name
        self.qualname = qualname
        self.module = module
        self.cls = cls
        self.node = node
        self.parent = parent
        self.nested = {}      # name -> FunctionInfo (nested defs)
        self.lambdas = []     # FunctionInfo for lambdas directly inside
        decos = []
        for d in getattr(node, "decorator_list", []):
            if isinstance(d, ast.Name):
                decos.append(d.id)
            elif isinstance(d, ast.Attribute):
                decos.append(d.attr)
        self.decorators = decos

    @property
    def is_static(self):
        return "staticmethod" in self.decorators

    @property
    def is_classmethod(self):
        return "classmethod" in self.decorators

    @property
    def is_property(self):
        return "property" in self.decorators

    @property
    def params(self):
        a = self.node.args
        return [x.arg for x in a.posonlyargs + a.args]

    @property
    def file(self):
        return self.module.relpath

    def loc(self, node=None):
        n = node if node is not None else self.node
        return f"{self.module.relpath}:{getattr(n, 'lineno', '?')}"

    def __repr__(self):
        return f"<fn {self.qualname}>"


class ClassInfo:
    def __init__(self, name, module, node):
        self.name = name
        self.module = module
        self.node = node
        self.qualname = f"{module.name}.{name}"
        self.methods = {}
        self.assigns = {}       # name -> expr (last class-level assignment)
        self.assign_order = []  # [(name, expr)] in textual order
        self.bases = []         # ClassInfo | ExtRef
        self.late_assigns = {}  # Class.X = ... done at module level elsewhere
        self._mro = None
        self._enum = None

    def mro(self):
        if self._mro is None:
            # C3 is overkill for this code base (single inheritance + mixins
            # absent); use a depth-first, left-to-right, duplicates-last order
            # and fail closed on diamonds.
            out = [self]
            for b in self.bases:
                if isinstance(b, ClassInfo):
                    for c in b.mro():
                        if c in out:
                            raise AnalysisError(
                                f"diamond inheritance at {self.qualname}: not modelled")
                        out.append(c)
            self._mro = out
        return self._mro

    def ext_bases(self):
        out = []
        for c in self.mro():
            for b in c.bases:
                if isinstance(b, ExtRef):
                    out.append(b.dotted)
        return out

    def is_subclass_of(self, other):
        if isinstance(other, ClassInfo):
            return other in self.mro()
        return other in self.ext_bases()

    def lookup(self, name):
        """-> (owner, kind, obj) with kind in method|assign, or None."""
        for c in self.mro():
            if name in c.methods:
                return (c, "method", c.methods[name])
            if name in c.assigns:
                return (c, "assign", c.assigns[name])
            if name in c.late_assigns:
                return (c, "assign", c.late_assigns[name][0])
        return None

    def __repr__(self):
        return f"<cls {self.qualname}>"


class ModuleInfo:
    def __init__(self, name, path, relpath, src):
        self.name = name
        self.path = path
        self.relpath = relpath
        self.src = src
        self.lines = src.split("\n")
        self.tree = ast.parse(src, filename=path)
        self.imports = {}
        self.functions = {}
        self.classes = {}
        self.assigns = {}
        self.is_package = os.path.basename(path) == "__init__.py"

    def segment(self, node):
        try:
            return ast.get_source_segment(self.src, node) or ast.unparse(node)
        except Exception:
            return ast.unparse(node)


def norm(node):
    """Normalised text of an AST node (stable under reformatting)."""
    if isinstance(node, str):
        return node
    return ast.unparse(node)


class Program:
    def __init__(self, repo_root, subdir="middleware", exclude=("tests",)):
        self.repo_root = repo_root
        self.root = os.path.join(repo_root, subdir)
        if not os.path.isdir(self.root):
            raise AnalysisError(f"{self.root} not found")
        self.modules = {}
        self.classes = {}    # qualname -> ClassInfo
        self.functions = {}  # qualname -> FunctionInfo
        self.all_functions = []  # incl. nested and lambdas
        self.anchor_log = set()  # functions the rules asked for by name (evidence: what was analysed as an anchor)
        self._load(exclude)
        self._index()
        self._link()

    # -- loading -----------------------------------------------------------
    def _load(self, exclude):
        for dirpath, dirnames, filenames in os.walk(self.root):
            dirnames[:] = sorted(d for d in dirnames
                                 if d not in exclude and d != "__pycache__")
            for fn in sorted(filenames):
                if not fn.endswith(".py"):
                    continue
                path = os.path.join(dirpath, fn)
                rel = os.path.relpath(path, self.root)
                parts = rel[:-3].split(os.sep)
                if parts[-1] == "__init__":
                    parts = parts[:-1]
                if not parts:
                    continue
                name = ".".join(parts)
                with open(path, encoding="utf-8") as f:
                    src = f.read()
                try:
                    mi = ModuleInfo(name, path, os.path.relpath(path, self.repo_root), src)
                except SyntaxError as e:
                    raise AnalysisError(f"cannot parse {path}: {e}")
                self.modules[name] = mi
        # behaviour-preserving normal form (helper inlining, constant-loop unrolling) before anything is indexed
        from .normalize import Normalizer, load_known
        try:
            kf, kc = load_known(os.path.dirname(os.path.dirname(os.path.abspath(__file__))))
        except (OSError, ValueError, KeyError) as e:
            raise AnalysisError(f"spec/known_functions.json unreadable: {e}")
        self.normalizer = Normalizer(self.modules, kf, kc).run()

    def _index(self):
        for mod in self.modules.values():
            self._index_imports(mod)
            for st in mod.tree.body:
                self._index_stmt(mod, st)

    def _index_imports(self, mod):
        for node in ast.walk(mod.tree):
            if isinstance(node, ast.Import):
                for a in node.names:
                    local = a.asname or a.name.split(".")[0]
                    target = a.name if a.asname else a.name.split(".")[0]
                    mod.imports[local] = ("module", target)
            elif isinstance(node, ast.ImportFrom):
                base = node.module or ""
                if node.level:
                    pkg = mod.name.split(".")
                    if not mod.is_package:
                        pkg = pkg[:-1]
                    if node.level > 1:
                        pkg = pkg[: -(node.level - 1)] if node.level - 1 <= len(pkg) else []
                    base = ".".join(pkg + ([base] if base else []))
                for a in node.names:
                    mod.imports[a.asname or a.name] = ("from", base, a.name)

    def _index_stmt(self, mod, st):
        dead = getattr(getattr(self, "normalizer", None), "dead", ())
        if isinstance(st, (ast.FunctionDef, ast.AsyncFunctionDef)):
            if f"{mod.name}:{st.name}" in dead:
                return
            fi = FunctionInfo(st.name, f"{mod.name}.{st.name}", mod, None, st)
            mod.functions[st.name] = fi
            self._register_function(fi)
        elif isinstance(st, ast.ClassDef):
            ci = ClassInfo(st.name, mod, st)
            mod.classes[st.name] = ci
            self.classes[ci.qualname] = ci
            for s in st.body:
                if isinstance(s, (ast.FunctionDef, ast.AsyncFunctionDef)):
                    if f"{mod.name}:{st.name}.{s.name}" in dead:
                        continue
                    fi = FunctionInfo(s.name, f"{ci.qualname}.{s.name}", mod, ci, s)
                    ci.methods[s.name] = fi
                    self._register_function(fi)
                elif isinstance(s, ast.Assign):
                    for t in s.targets:
                        if isinstance(t, ast.Name):
                            ci.assigns[t.id] = s.value
                            ci.assign_order.append((t.id, s.value))
                elif isinstance(s, ast.AnnAssign) and isinstance(s.target, ast.Name) \
                        and s.value is not None:
                    ci.assigns[s.target.id] = s.value
                    ci.assign_order.append((s.target.id, s.value))
        elif isinstance(st, ast.Assign):
            for t in st.targets:
                if isinstance(t, ast.Name):
                    mod.assigns[t.id] = st.value
        elif isinstance(st, (ast.If, ast.Try, ast.With)):
            # e.g. `if __name__ == "__main__":` - index nested defs too
            for s in ast.iter_child_nodes(st):
                if isinstance(s, ast.stmt):
                    self._index_stmt(mod, s)

    def _register_function(self, fi):
        self.functions[fi.qualname] = fi
        self.all_functions.append(fi)
        self._index_nested(fi)

    def _index_nested(self, fi):
        """Register nested defs and lambdas of fi (not descending into them
        twice)."""
        def visit(node, owner):
            for child in ast.iter_child_nodes(node):
                if isinstance(child, (ast.FunctionDef, ast.AsyncFunctionDef)):
                    sub = FunctionInfo(child.name,
                                       f"{owner.qualname}.<locals>.{child.name}",
                                       owner.module, owner.cls, child, parent=owner)
                    owner.nested[child.name] = sub
                    self.functions[sub.qualname] = sub
                    self.all_functions.append(sub)
                    visit(child, sub)
                elif isinstance(child, ast.Lambda):
                    sub = FunctionInfo("<lambda>",
                                       f"{owner.qualname}.<lambda@{child.lineno}:{child.col_offset}>",
                                       owner.module, owner.cls, child, parent=owner)
                    owner.lambdas.append(sub)
                    self.functions[sub.qualname] = sub
                    self.all_functions.append(sub)
                    visit(child, sub)
                elif isinstance(child, ast.ClassDef):
                    continue
                else:
                    visit(child, owner)
        visit(fi.node, fi)

    def _link(self):
        for ci in self.classes.values():
            for b in ci.node.bases:
                try:
                    v = self.const_eval(b, ci.module)
                except Unknown:
                    v = ExtRef(norm(b))
                if isinstance(v, ClassRef):
                    ci.bases.append(v.cls)
                elif isinstance(v, ExtRef):
                    ci.bases.append(v)
                else:
                    ci.bases.append(ExtRef(norm(b)))
        # module-level "Class.ATTR = value" assignments (certificate.py idiom)
        for mod in self.modules.values():
            for st in mod.tree.body:
                if isinstance(st, ast.Assign) and len(st.targets) == 1 \
                        and isinstance(st.targets[0], ast.Attribute) \
                        and isinstance(st.targets[0].value, ast.Name):
                    try:
                        v = self.const_eval(st.targets[0].value, mod)
                    except Unknown:
                        continue
                    if isinstance(v, ClassRef):
                        v.cls.late_assigns[st.targets[0].attr] = (st.value, mod)

    # -- lookup helpers ----------------------------------------------------
    def module(self, name):
        if name not in self.modules:
            raise AnalysisError(f"anchor module {name} not found")
        return self.modules[name]

    def cls(self, qual):
        if qual in self.classes:
            return self.classes[qual]
        cands = [c for q, c in self.classes.items() if q.endswith("." + qual)]
        if len(cands) == 1:
            return cands[0]
        raise AnalysisError(f"anchor class {qual} not found (candidates: {len(cands)})")

    # the dispatch tables of the repository that rules read explicitly (command tables, element factories, extractors): a call through one of them
    # is resolved by the rule that owns the table; a call through any other computed callable is something no engine here resolves
    KNOWN_TABLES = ("_mappings", "_validation_mappings", "EXTRACTORS", "VERSION_MAPPING", "TYPE_MAPPING", "ELEMENT_FACTORY", "chunk_error_mapping")

    def _resolvable_local_callee(self, fn, name):
        """every binding of the local is a plain `x = <path>` (a function, bound method or class named by a dotted path, possibly chosen by a
        conditional expression) or a lookup in one of the known dispatch tables - what the call-graph engine resolves"""
        def ok(v):
            if isinstance(v, ast.IfExp):
                return ok(v.body) and ok(v.orelse)
            p = v
            while isinstance(p, ast.Attribute):
                p = p.value
            if isinstance(p, ast.Name) and isinstance(v, (ast.Name, ast.Attribute)):
                return True
            base = None
            if isinstance(v, ast.Subscript):
                base = v.value
            elif isinstance(v, ast.Call) and isinstance(v.func, ast.Attribute) and v.func.attr == "get":
                base = v.func.value
            term = base.attr if isinstance(base, ast.Attribute) else (base.id if isinstance(base, ast.Name) else None)
            return term in self.KNOWN_TABLES
        binds = []
        for n in ast.walk(fn.node):
            if isinstance(n, ast.Name) and n.id == name and isinstance(n.ctx, ast.Store):
                binds.append(n)
        plain = [n for n in ast.walk(fn.node) if isinstance(n, ast.Assign) and len(n.targets) == 1 and isinstance(n.targets[0], ast.Name) and n.targets[0].id == name]
        return len(plain) == len(binds) and all(ok(a.value) for a in plain)

    def _refuse_computed_callees(self, fn):
        """An anchor function that calls something taken from a table or computed on the spot (`TABLE[k](x)`, `D.get(k)(x)`, `next(gen)()`): the call
        graph, effect and exception engines do not see what runs there, so no verdict about the function can be trusted - undecided, not a finding."""
        if getattr(fn, "_callees_checked", False):
            return
        fn._callees_checked = True
        assigned = set()
        for n in ast.walk(fn.node):
            if isinstance(n, ast.Name) and isinstance(n.ctx, ast.Store):
                assigned.add(n.id)
        nested = {n.name for n in ast.walk(fn.node) if isinstance(n, (ast.FunctionDef, ast.AsyncFunctionDef, ast.ClassDef)) and n is not fn.node}
        for n in ast.walk(fn.node):
            if isinstance(n, ast.Call) and isinstance(n.func, ast.Name) and n.func.id in assigned and n.func.id not in nested \
                    and not self._resolvable_local_callee(fn, n.func.id):
                # a local variable called as a function: whatever was put into it
                raise AnalysisError(f"{fn.qualname}: `{norm(n)[:60]}` calls the value of a local variable; what runs there is not resolved (idiom not understood, UNDECIDED)")
            if isinstance(n, ast.Call) and isinstance(n.func, (ast.Subscript, ast.Call)):
                base = n.func.value if isinstance(n.func, ast.Subscript) else n.func.func
                if isinstance(n.func, ast.Call) and isinstance(base, ast.Attribute) and base.attr == "get":
                    base = base.value
                term = base.attr if isinstance(base, ast.Attribute) else (base.id if isinstance(base, ast.Name) else None)
                if isinstance(n.func, ast.Call) and isinstance(n.func.func, ast.Name) and n.func.func.id in ("super", "type"):
                    continue
                if term in self.KNOWN_TABLES:
                    continue
                raise AnalysisError(f"{fn.qualname}: `{norm(n)[:60]}` calls a callable taken from a table or computed at run time; what runs there is not "
                                    "resolved (idiom not understood, UNDECIDED)")

    def func(self, qual):
        r = self._func(qual)
        self.anchor_log.add(r.qualname)
        self._refuse_computed_callees(r)
        return r

    def _func(self, qual):
        if qual in self.functions:
            return self.functions[qual]
        cands = [f for q, f in self.functions.items() if q.endswith("." + qual)]
        if len(cands) == 1:
            return cands[0]
        raise AnalysisError(f"anchor function {qual} not found (candidates: {len(cands)})")

    def has_func(self, qual):
        try:
            self._func(qual)
            return True
        except AnalysisError:
            return False

    def method(self, cls, name):
        """Resolve `name` through the MRO of cls -> FunctionInfo."""
        if isinstance(cls, str):
            cls = self.cls(cls)
        r = cls.lookup(name)
        if r is None or r[1] != "method":
            raise AnalysisError(f"anchor method {cls.qualname}.{name} not found")
        self.anchor_log.add(r[2].qualname)
        self._refuse_computed_callees(r[2])
        return r[2]

    def subclasses(self, cls, strict=False):
        out = []
        for c in self.classes.values():
            if cls in c.mro() and not (strict and c is cls):
                out.append(c)
        return out

    def resolve_name(self, mod, name, _depth=0):
        """Module-scope resolution of a bare name."""
        if _depth > 8:
            raise Unknown(name)
        if name in mod.classes:
            return ClassRef(mod.classes[name])
        if name in mod.functions:
            return FuncRef(mod.functions[name])
        if name in mod.assigns:
            return ("expr", mod.assigns[name], mod)
        if name in mod.imports:
            imp = mod.imports[name]
            if imp[0] == "module":
                if imp[1] in self.modules:
                    return ModuleRef(self.modules[imp[1]])
                return ExtRef(imp[1])
            _, base, attr = imp
            full = f"{base}.{attr}" if base else attr
            if full in self.modules:
                return ModuleRef(self.modules[full])
            if base in self.modules:
                return self.resolve_name(self.modules[base], attr, _depth + 1)
            return ExtRef(full)
        raise Unknown(name)

    # -- enums ---------------------------------------------------------------
    def is_enum(self, ci):
        return any(e.split(".")[-1] in ("IntEnum", "Enum", "IntFlag", "Flag")
                   for e in ci.ext_bases())

    def enum_members(self, ci):
        if ci._enum is not None:
            return ci._enum
        members = {}
        prev = None
        is_int = any(e.split(".")[-1] in ("IntEnum", "IntFlag") for e in ci.ext_bases())
        has_new = "__new__" in ci.methods
        for name, expr in ci.assign_order:
            if name.startswith("_"):
                continue
            if isinstance(expr, ast.Call) and isinstance(expr.func, ast.Name) \
                    and expr.func.id == "auto" and not expr.args:
                if prev is None:
                    val = 1
                elif isinstance(prev, int):
                    val = prev + 1
                else:
                    raise AnalysisError(f"auto() after non-int in {ci.qualname}")
            else:
                try:
                    val = unwrap(self.const_eval(expr, ci.module, cls=None,
                                                 env={k: v for k, v in members.items()}))
                except Unknown:
                    raise AnalysisError(
                        f"enum member {ci.qualname}.{name} is not a foldable constant")
            extra = {}
            if isinstance(val, tuple):
                if is_int and len(val) == 1:
                    val = val[0]
                elif has_new:
                    # SighashComputationMode idiom: value = args[0]; extra attrs
                    extra = self._enum_new_attrs(ci, val)
                    val = val[0]
            prev = val
            members[name] = EnumMember(ci, name, val, extra)
        ci._enum = members
        return members

    def _enum_new_attrs(self, ci, args):
        """obj.<attr> = args[i] assignments inside __new__."""
        out = {}
        fn = ci.methods["__new__"].node
        for st in ast.walk(fn):
            if isinstance(st, ast.Assign) and len(st.targets) == 1 \
                    and isinstance(st.targets[0], ast.Attribute) \
                    and isinstance(st.value, ast.Subscript) \
                    and isinstance(st.value.value, ast.Name) and st.value.value.id == "args" \
                    and isinstance(st.value.slice, ast.Constant):
                idx = st.value.slice.value
                if isinstance(idx, int) and idx < len(args):
                    out[st.targets[0].attr] = args[idx]
        return out

    # -- constant evaluation -----------------------------------------------
    def const_eval(self, expr, mod, cls=None, env=None, _depth=0):
        """Fold `expr` (in module `mod`, optionally inside class `cls` whose
        `self.`/`cls.` attributes are looked up through the MRO)."""
        if _depth > 25:
            raise Unknown("depth")
        ev = lambda e: self.const_eval(e, mod, cls, env, _depth + 1)  # noqa: E731
        if isinstance(expr, ast.Constant):
            return expr.value
        if isinstance(expr, ast.Name):
            if env is not None and expr.id in env:
                return env[expr.id]
            if expr.id in ("self", "cls") and cls is not None:
                return ClassRef(cls)
            if cls is not None:
                # class-body scope for class-level expressions
                pass
            if expr.id in ("True", "False", "None"):
                return {"True": True, "False": False, "None": None}[expr.id]
            if expr.id in ("bytes", "int", "str", "dict", "list", "bool", "tuple", "float",
                           "type", "len", "set"):
                return ExtRef("builtins." + expr.id)
            r = self.resolve_name(mod, expr.id)
            if isinstance(r, tuple):
                return self.const_eval(r[1], r[2], None, None, _depth + 1)
            return r
        if isinstance(expr, ast.Attribute):
            base = ev(expr.value)
            return self.attr_of(base, expr.attr, _depth)
        if isinstance(expr, ast.Tuple):
            return tuple(ev(e) for e in expr.elts)
        if isinstance(expr, ast.List):
            return [ev(e) for e in expr.elts]
        if isinstance(expr, ast.Set):
            return set(ev(e) for e in expr.elts)
        if isinstance(expr, ast.Dict):
            out = {}
            for k, v in zip(expr.keys, expr.values):
                if k is None:
                    raise Unknown("dict unpack")
                out[ev(k)] = ev(v)
            return out
        if isinstance(expr, ast.UnaryOp):
            v = unwrap(ev(expr.operand))
            if isinstance(expr.op, ast.USub):
                return -v
            if isinstance(expr.op, ast.UAdd):
                return +v
            if isinstance(expr.op, ast.Invert):
                return ~v
            if isinstance(expr.op, ast.Not):
                return not v
        if isinstance(expr, ast.BinOp):
            a, b = unwrap(ev(expr.left)), unwrap(ev(expr.right))
            if isinstance(a, (ExtRef, ClassRef, Obj, ModuleRef, FuncRef)) or \
                    isinstance(b, (ExtRef, ClassRef, Obj, ModuleRef, FuncRef)):
                raise Unknown("binop on ref")
            op = expr.op
            try:
                if isinstance(op, ast.Add):
                    return a + b
                if isinstance(op, ast.Sub):
                    return a - b
                if isinstance(op, ast.Mult):
                    return a * b
                if isinstance(op, ast.FloorDiv):
                    return a // b
                if isinstance(op, ast.Mod):
                    return a % b
                if isinstance(op, ast.Pow):
                    if isinstance(b, int) and abs(b) > 4096:
                        raise Unknown("pow too large")
                    return a ** b
                if isinstance(op, ast.LShift):
                    if b > 4096:
                        raise Unknown("shift too large")
                    return a << b
                if isinstance(op, ast.RShift):
                    return a >> b
                if isinstance(op, ast.BitOr):
                    return a | b
                if isinstance(op, ast.BitAnd):
                    return a & b
                if isinstance(op, ast.BitXor):
                    return a ^ b
            except Unknown:
                raise
            except Exception as e:
                raise Unknown(f"binop failed: {e}")
        if isinstance(expr, ast.JoinedStr):
            parts = []
            for v in expr.values:
                if isinstance(v, ast.Constant):
                    parts.append(str(v.value))
                elif isinstance(v, ast.FormattedValue) and v.format_spec is None \
                        and v.conversion == -1:
                    parts.append(str(unwrap(ev(v.value))))
                else:
                    raise Unknown("fstring")
            return "".join(parts)
        if isinstance(expr, ast.Subscript):
            base = ev(expr.value)
            if isinstance(expr.slice, ast.Slice):
                lo = unwrap(ev(expr.slice.lower)) if expr.slice.lower else None
                hi = unwrap(ev(expr.slice.upper)) if expr.slice.upper else None
                st = unwrap(ev(expr.slice.step)) if expr.slice.step else None
                try:
                    return base[lo:hi:st]
                except Exception:
                    raise Unknown("slice")
            idx = ev(expr.slice)
            try:
                if isinstance(base, dict):
                    return base[idx]
                return base[unwrap(idx)]
            except Exception:
                raise Unknown("subscript")
        if isinstance(expr, ast.Call):
            return self._eval_call(expr, mod, cls, env, _depth)
        if isinstance(expr, ast.Lambda):
            raise Unknown("lambda")
        if isinstance(expr, (ast.DictComp, ast.ListComp, ast.SetComp)) and len(expr.generators) == 1 and not expr.generators[0].is_async:
            # a comprehension over a foldable collection (at most 64 items): evaluated item by item
            gen = expr.generators[0]
            items = ev(gen.iter)
            if isinstance(items, dict):
                items = list(items)
            if not isinstance(items, (list, tuple)) or len(items) > 64:
                raise Unknown("comprehension source")

            class _Layer:
                def __init__(s, top, base):
                    s.top, s.base = top, base

                def __contains__(s, k):
                    return k in s.top or (s.base is not None and k in s.base)

                def __getitem__(s, k):
                    return s.top[k] if k in s.top else s.base[k]
            out = {} if isinstance(expr, ast.DictComp) else []
            for it in items:
                if isinstance(gen.target, ast.Name):
                    top = {gen.target.id: it}
                elif isinstance(gen.target, ast.Tuple) and all(isinstance(t, ast.Name) for t in gen.target.elts) and isinstance(it, (tuple, list)) \
                        and len(it) == len(gen.target.elts):
                    top = {t.id: v for t, v in zip(gen.target.elts, it)}
                else:
                    raise Unknown("comprehension target")
                env2 = _Layer(top, env)
                if not all(unwrap(self.const_eval(c, mod, cls, env2, _depth + 1)) for c in gen.ifs):
                    continue
                if isinstance(expr, ast.DictComp):
                    out[self.const_eval(expr.key, mod, cls, env2, _depth + 1)] = self.const_eval(expr.value, mod, cls, env2, _depth + 1)
                else:
                    out.append(self.const_eval(expr.elt, mod, cls, env2, _depth + 1))
            return set(out) if isinstance(expr, ast.SetComp) else out
        raise Unknown(type(expr).__name__)

    def attr_of(self, base, attr, _depth=0):
        if isinstance(base, ClassRef):
            ci = base.cls
            if self.is_enum(ci):
                mem = self.enum_members(ci)
                if attr in mem:
                    return mem[attr]
            r = ci.lookup(attr)
            if r is None:
                raise Unknown(f"{ci.qualname}.{attr}")
            owner, kind, obj = r
            if kind == "method":
                return FuncRef(obj, bound_cls=ci)
            if attr in owner.late_assigns and attr not in owner.assigns:
                e, m = owner.late_assigns[attr]
                return self.const_eval(e, m, None, None, _depth + 1)
            # class-level expressions see class-body names first
            return self._eval_class_level(owner, obj, _depth)
        if isinstance(base, ModuleRef):
            r = self.resolve_name(base.mod, attr)
            if isinstance(r, tuple):
                return self.const_eval(r[1], r[2], None, None, _depth + 1)
            return r
        if isinstance(base, ExtRef):
            dotted = f"{base.dotted}.{attr}"
            if dotted in _STDLIB_CONSTS:
                return _STDLIB_CONSTS[dotted]
            return ExtRef(dotted)
        if isinstance(base, EnumMember):
            if attr == "value":
                return base.value
            if attr == "name":
                return base.name
            if attr in base.extra:
                return base.extra[attr]
            raise Unknown(attr)
        if isinstance(base, Obj):
            raise Unknown(f"attribute {attr} of {base}")
        raise Unknown(f"attr {attr}")

    def _eval_class_level(self, owner, expr, _depth):
        env = {}

        class _Env(dict):
            def __init__(s):
                super().__init__()

            def __contains__(s, k):
                return k in owner.assigns and not self.is_enum(owner)

            def __getitem__(s, k):
                return self.const_eval(owner.assigns[k], owner.module, None, _Env(),
                                       _depth + 1)
        del env
        # names in a class body refer to earlier class-level names, then module
        if isinstance(expr, ast.Name) and expr.id in owner.assigns \
                and owner.assigns[expr.id] is expr:
            raise Unknown("self reference")
        return self.const_eval(expr, owner.module, None, _Env(), _depth + 1)

    def _eval_call(self, expr, mod, cls, env, _depth):
        ev = lambda e: self.const_eval(e, mod, cls, env, _depth + 1)  # noqa: E731
        f = expr.func
        # bytes.fromhex("..")
        if isinstance(f, ast.Attribute) and f.attr == "fromhex" \
                and isinstance(f.value, ast.Name) and f.value.id == "bytes" and len(expr.args) == 1:
            v = ev(expr.args[0])
            if isinstance(v, str):
                try:
                    return bytes.fromhex(v)
                except ValueError:
                    raise Unknown("fromhex")
            raise Unknown("fromhex arg")
        if isinstance(f, ast.Name) and f.id == "bytes" and len(expr.args) == 1:
            v = ev(expr.args[0])
            if isinstance(v, (list, tuple)):
                try:
                    return bytes(unwrap(x) for x in v)
                except Exception:
                    raise Unknown("bytes()")
            raise Unknown("bytes arg")
        if isinstance(f, ast.Name) and f.id == "len" and len(expr.args) == 1:
            v = ev(expr.args[0])
            if isinstance(v, (str, bytes, list, tuple, dict)):
                return len(v)
            raise Unknown("len")
        if isinstance(f, ast.Name) and f.id in ("int", "str", "hex") and len(expr.args) == 1:
            v = unwrap(ev(expr.args[0]))
            if isinstance(v, (int, str)):
                return {"int": int, "str": str, "hex": hex}[f.id](v)
            raise Unknown(f.id)
        if isinstance(f, ast.Attribute) and f.attr in ("lower", "upper", "encode", "hex",
                                                       "keys", "strip") and not expr.args:
            v = ev(f.value)
            if isinstance(v, (str, bytes)) and f.attr != "keys":
                return getattr(v, f.attr)()
            if isinstance(v, dict) and f.attr == "keys":
                return list(v.keys())
            raise Unknown(f.attr)
        # constructor / known callable records
        try:
            target = ev(f)
        except Unknown:
            raise
        args = [ev(a) for a in expr.args]
        kwargs = {k.arg: ev(k.value) for k in expr.keywords if k.arg}
        if isinstance(target, ClassRef):
            if self.is_enum(target.cls) and len(args) == 1:
                for m in self.enum_members(target.cls).values():
                    if m.value == unwrap(args[0]):
                        return m
                raise Unknown("enum value")
            return Obj(target.cls.qualname, args, kwargs)
        if isinstance(target, ExtRef):
            return Obj(target.dotted, args, kwargs)
        raise Unknown("call")

    # convenience wrappers used by rules -------------------------------------
    def class_const(self, cls, name):
        """Fold `cls.name` as seen from class `cls` (subclass overrides win)."""
        if isinstance(cls, str):
            cls = self.cls(cls)
        try:
            return self.attr_of(ClassRef(cls), name)
        except Unknown as e:
            raise AnalysisError(f"constant {cls.qualname}.{name} not foldable: {e}")

    def module_const(self, modname, name):
        mod = self.module(modname)
        try:
            return self.const_eval(ast.Name(id=name, ctx=ast.Load()), mod)
        except Unknown as e:
            raise AnalysisError(f"constant {modname}.{name} not foldable: {e}")

    def try_eval(self, expr, mod, cls=None, env=None):
        try:
            return True, self.const_eval(expr, mod, cls, env)
        except Unknown:
            return False, None

    def stats(self):
        ncalls = 0
        for m in self.modules.values():
            for n in ast.walk(m.tree):
                if isinstance(n, ast.Call):
                    ncalls += 1
        return {
            "modules": len(self.modules),
            "classes": len(self.classes),
            "functions": len(self.all_functions),
            "call_expressions": ncalls,
            "lines": sum(len(m.lines) for m in self.modules.values()),
        }
