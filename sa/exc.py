"""EXC - exception-escape analysis.

Esc(f) = exception classes that can leave f: explicit raises, callees' Esc,
optional primitive raises (hook), minus what enclosing handlers catch
(subclass-aware), plus what handlers / finally bodies raise.  Least fixpoint
over the resolved call graph.  Purely syntactic: nothing is executed.
"""
import ast
import builtins
from .model import AnalysisError, norm
from .callgraph import ClsVal, ExtVal, Inst
from .normalize import InlineBlock, InlineJump
from .cfg import walk_no_nested

# external exception classes the repo mentions -> builtin parent
EXT_PARENTS = {
    "JSONDecodeError": "ValueError",
    "CommException": "Exception",
    "error": "OSError",           # socket.error
    "struct.error": "Exception",
    "RequestException": "OSError",
    "InvalidSignature": "Exception",
    "BadSignatureError": "Exception",
    "MalformedPointError": "AssertionError",
}


class Witness:
    __slots__ = ("chain",)

    def __init__(self, chain):
        self.chain = chain   # list of (fn qualname, lineno, text)

    def extend(self, fn, node, text=None):
        return Witness([(fn.qualname, getattr(node, "lineno", 0),
                         text or norm(node)[:90])] + self.chain)

    def render(self):
        return " <- ".join(f"{q.split('.', 1)[-1]}:{ln} `{t}`" for q, ln, t in self.chain)

    def functions(self):
        return [q for q, _, _ in self.chain]


class ExcAnalysis:
    def __init__(self, A, prim_hook=None, cut=(), ignore_ext_calls=True, site_tags=False):
        """prim_hook(node, fn, self_cls, ctx) -> iterable of (exc name, text)
        for tier-2 primitives; cut = qualnames of functions treated as raising
        nothing (used to set the re-bring-up chain apart)."""
        self.A = A
        self.P = A.P
        self.prim_hook = prim_hook
        self.site_tags = site_tags
        self.cut = set(cut)
        self._esc = {}
        self._final = set()
        self._round = set()
        self._dirty_since = {}
        self._stack = set()
        self._dirty = False
        self._class_by_name = {}
        for ci in self.P.classes.values():
            self._class_by_name.setdefault(ci.name, []).append(ci)

    # -- class lattice -------------------------------------------------------
    def ancestors(self, name):
        if "@" in name:
            return [name] + self.ancestors(name.split("@", 1)[0])
        out = [name]
        cis = self._class_by_name.get(name)
        if cis:
            ci = cis[0]
            for c in ci.mro()[1:]:
                out.append(c.name)
            for e in ci.ext_bases():
                b = e.split(".")[-1]
                for a in self.ancestors(b):
                    if a not in out:
                        out.append(a)
            return out
        b = getattr(builtins, name, None)
        if isinstance(b, type) and issubclass(b, BaseException):
            return [c.__name__ for c in b.__mro__ if c is not object]
        if name in EXT_PARENTS:
            return [name] + self.ancestors(EXT_PARENTS[name])
        return [name, "Exception", "BaseException"]

    def is_sub(self, a, b):
        return b in self.ancestors(a)

    def class_names_of(self, expr, fn, self_cls):
        """Exception class names denoted by a handler type / raise operand."""
        if expr is None:
            return ["BaseException"]
        if isinstance(expr, ast.Tuple):
            out = []
            for e in expr.elts:
                out += self.class_names_of(e, fn, self_cls)
            return out
        if isinstance(expr, ast.Call):
            return self.class_names_of(expr.func, fn, self_cls)
        vals = self.A.values_of(expr, fn, self_cls)
        out = []
        for v in vals:
            if isinstance(v, ClsVal):
                out.append(v.cls.name)
            elif isinstance(v, Inst):
                out.append(v.cls.name)      # `raise x` with x an instance built earlier
            elif isinstance(v, ExtVal):
                nm = v.dotted.split(".")[-1]
                out.append(nm)
        if not out:
            if isinstance(expr, ast.Name):
                out.append(expr.id)
            elif isinstance(expr, ast.Attribute):
                out.append(expr.attr)
        return out

    # -- main ------------------------------------------------------------------
    def esc(self, fn, self_cls=None):
        """dict exc name -> Witness"""
        for _ in range(60):
            self._dirty = False
            self._round = set()
            res = self._esc_of(fn, self_cls)
            if not self._dirty:
                self._final |= self._round
                return res
        raise AnalysisError("exception-escape fixpoint did not converge")

    def _key(self, fn, self_cls):
        return (fn.qualname, self_cls.qualname if self_cls else None)

    def _esc_of(self, fn, self_cls):
        k = self._key(fn, self_cls)
        if fn.qualname in self.cut:
            return {}
        if k in self._final or k in self._stack:
            return self._esc.get(k, {})
        if k in self._round:
            return self._esc.get(k, {})
        self._round.add(k)
        self._stack.add(k)
        try:
            node = fn.node
            if isinstance(node, ast.Lambda):
                res = self._expr(node.body, fn, self_cls, {})
            else:
                res = self._block(node.body, fn, self_cls, {})
        finally:
            self._stack.discard(k)
        old = self._esc.get(k)
        if old is None or set(old) != set(res):
            merged = dict(old or {})
            for e, w in res.items():
                merged.setdefault(e, w)
            if old is None or set(merged) != set(old):
                self._dirty = True
            self._esc[k] = merged
        return self._esc[k]

    @staticmethod
    def _merge(dst, src):
        for e, w in src.items():
            dst.setdefault(e, w)

    def _block(self, stmts, fn, sc, bound):
        out = {}
        for st in stmts:
            self._merge(out, self._stmt(st, fn, sc, bound))
        return out

    def _stmt(self, st, fn, sc, bound):
        out = {}
        if isinstance(st, (ast.FunctionDef, ast.AsyncFunctionDef, ast.ClassDef)):
            return out
        if isinstance(st, ast.Raise):
            if st.exc is None:
                for e, w in bound.get("", {}).items():
                    out.setdefault(e, w)
                return out
            self._merge(out, self._expr(st.exc, fn, sc, bound))
            if isinstance(st.exc, ast.Name) and st.exc.id in bound:
                for e, w in bound[st.exc.id].items():
                    out.setdefault(e, w)
                return out
            names = self.class_names_of(st.exc, fn, sc)
            for nm in names or ["Exception"]:
                if self.site_tags:
                    nm = f"{nm}@{fn.qualname}:{st.lineno}"
                out.setdefault(nm, Witness([(fn.qualname, st.lineno, norm(st)[:90])]))
            return out
        if isinstance(st, ast.Try):
            body = self._block(st.body, fn, sc, bound)
            res = {}
            for e, w in body.items():
                caught = False
                for h in st.handlers:
                    hnames = self.class_names_of(h.type, fn, sc)
                    if any(self.is_sub(e, hn) for hn in hnames):
                        caught = True
                        break
                    # a raised *base* class may be an instance of the handler's
                    # subclass only if raised generically; constructor-known
                    # classes are exact, so no partial match is modelled.
                if not caught:
                    res.setdefault(e, w)
            self._merge(res, self._block(st.orelse, fn, sc, bound))
            for h in st.handlers:
                hnames = self.class_names_of(h.type, fn, sc)
                reaching = {e: w for e, w in body.items()
                            if any(self.is_sub(e, hn) for hn in hnames)
                            and not self._caught_earlier(e, h, st, fn, sc)}
                nb = dict(bound)
                nb[""] = reaching
                if h.name:
                    nb[h.name] = reaching
                self._merge(res, self._block(h.body, fn, sc, nb))
            if st.finalbody:
                fin = self._block(st.finalbody, fn, sc, bound)
                if any(isinstance(s, ast.Raise) for s in st.finalbody):
                    return fin
                self._merge(res, fin)
            return res
        if isinstance(st, (ast.If, ast.While)):
            self._merge(out, self._expr(st.test, fn, sc, bound))
            self._merge(out, self._block(st.body, fn, sc, bound))
            self._merge(out, self._block(st.orelse, fn, sc, bound))
            return out
        if isinstance(st, (ast.For, ast.AsyncFor)):
            self._merge(out, self._expr(st.iter, fn, sc, bound))
            self._merge(out, self._block(st.body, fn, sc, bound))
            self._merge(out, self._block(st.orelse, fn, sc, bound))
            return out
        if isinstance(st, (ast.With, ast.AsyncWith)):
            for it in st.items:
                self._merge(out, self._expr(it.context_expr, fn, sc, bound))
            self._merge(out, self._block(st.body, fn, sc, bound))
            return out
        if isinstance(st, InlineBlock):
            self._merge(out, self._block(st.prologue + st.body + st.epilogue, fn, sc, bound))
            return out
        if isinstance(st, InlineJump):
            return out
        if isinstance(st, ast.Assert):
            self._merge(out, self._expr(st.test, fn, sc, bound))
            out.setdefault("AssertionError", Witness([(fn.qualname, st.lineno, norm(st)[:90])]))
            return out
        # simple statements: expressions inside
        self._merge(out, self._expr(st, fn, sc, bound))
        return out

    def _caught_earlier(self, e, h, tr, fn, sc):
        for h2 in tr.handlers:
            if h2 is h:
                return False
            if any(self.is_sub(e, hn) for hn in self.class_names_of(h2.type, fn, sc)):
                return True
        return False

    def _expr(self, node, fn, sc, bound):
        out = {}
        for n in walk_no_nested(node):
            if isinstance(n, ast.Call):
                cs = self.A.resolve_call(n, fn, sc)
                if not any(c.fn is not None for c in cs):
                    cs = cs + self.A.fn_args_called(n, fn, sc)
                for c in cs:
                    if c.fn is None:
                        continue
                    sub = self._esc_of(c.fn, c.self_cls)
                    for e, w in sub.items():
                        out.setdefault(e, w.extend(fn, n))
            if self.prim_hook is not None:
                for (e, text) in self.prim_hook(n, fn, sc, self) or ():
                    if self.site_tags:
                        e = f"{e}@{fn.qualname}:{getattr(n, 'lineno', 0)}:{getattr(n, 'col_offset', 0)}"
                    out.setdefault(e, Witness([(fn.qualname, getattr(n, "lineno", 0), text)]))
        return out
