"""Query helpers shared by the rule modules: atoms/facts, interprocedural
must-facts by dominance, call-site finders, small AST pattern utilities."""
import ast
import re
from .model import AnalysisError, Unknown, norm, unwrap
from .cfg import walk_no_nested

_NEG = {ast.Lt: ast.GtE, ast.LtE: ast.Gt, ast.Gt: ast.LtE, ast.GtE: ast.Lt,
        ast.Eq: ast.NotEq, ast.NotEq: ast.Eq, ast.In: ast.NotIn, ast.NotIn: ast.In,
        ast.Is: ast.IsNot, ast.IsNot: ast.Is}
_SYM = {ast.Lt: "<", ast.LtE: "<=", ast.Gt: ">", ast.GtE: ">=", ast.Eq: "==",
        ast.NotEq: "!=", ast.In: "in", ast.NotIn: "not in", ast.Is: "is",
        ast.IsNot: "is not"}
_FLIP = {"<": ">", "<=": ">=", ">": "<", ">=": "<=", "==": "==", "!=": "!="}


class Fact:
    """A condition known to hold: `kind` in cmp | call | truthy.
    For cmp: op (string, polarity already applied), left/right AST.
    For call/truthy: pol (True = truthy), expr AST."""
    __slots__ = ("kind", "op", "left", "right", "pol", "expr", "fn", "node", "via")

    def __init__(self, kind, fn, node, op=None, left=None, right=None, pol=None, expr=None,
                 via=""):
        self.kind, self.fn, self.node = kind, fn, node
        self.op, self.left, self.right, self.pol, self.expr = op, left, right, pol, expr
        self.via = via

    def text(self):
        if self.kind == "cmp":
            return f"{norm(self.left)} {self.op} {norm(self.right)}"
        return ("" if self.pol else "not ") + norm(self.expr)

    def __repr__(self):
        return f"Fact<{self.text()} @{self.fn.qualname.split('.')[-1]}>"


def make_facts(pol, expr, fn, node=None, via=""):
    """(polarity 'T'|'F', atomic condition AST) -> [Fact]"""
    truth = pol == "T"
    while isinstance(expr, ast.UnaryOp) and isinstance(expr.op, ast.Not):
        expr = expr.operand
        truth = not truth
    if isinstance(expr, ast.Compare) and len(expr.ops) == 1:
        op = type(expr.ops[0])
        if not truth:
            op = _NEG[op]
        return [Fact("cmp", fn, node, op=_SYM[op], left=expr.left, right=expr.comparators[0],
                     via=via)]
    if isinstance(expr, ast.Compare) and truth:
        out = []
        left = expr.left
        for o, r in zip(expr.ops, expr.comparators):
            out.append(Fact("cmp", fn, node, op=_SYM[type(o)], left=left, right=r, via=via))
            left = r
        return out
    if isinstance(expr, ast.Call):
        return [Fact("call", fn, node, pol=truth, expr=expr, via=via)]
    return [Fact("truthy", fn, node, pol=truth, expr=expr, via=via)]


def call_name(call):
    f = call.func
    if isinstance(f, ast.Attribute):
        return f.attr
    if isinstance(f, ast.Name):
        return f.id
    return None


def calls_in(node):
    return [n for n in walk_no_nested(node) if isinstance(n, ast.Call)]


def find_calls(A, fn, name=None, pred=None):
    out = []
    for n in A.own_nodes(fn):
        if isinstance(n, ast.Call) and (name is None or call_name(n) == name) \
                and (pred is None or pred(n)):
            out.append(n)
    return out


def kwarg(call, name, pos=None):
    for k in call.keywords:
        if k.arg == name:
            return k.value
    if pos is not None and pos < len(call.args):
        return call.args[pos]
    return None


def is_const(node, value):
    return isinstance(node, ast.Constant) and node.value == value and \
        type(node.value) is type(value)


_IN_RE = re.compile(r"('[^']*'|[\w.]+(?:\.get\('[^']*'\)|\['[^']*'\])*) in ([\w.]+(?:\['[^']*'\])*)")


def implied_texts(texts):
    """Facts that follow from the given fact texts whatever the values involved:
         D.get(K) is not None  =>  K in D            (a key that is absent reads as None)
         type(D.get(K)) == T   =>  K in D            (T a concrete type name other than NoneType)"""
    out = set()
    for t in texts:
        if ".get(" not in t:
            continue
        try:
            e = ast.parse(t, mode="eval").body
        except SyntaxError:
            continue
        if not (isinstance(e, ast.Compare) and len(e.ops) == 1):
            continue
        l, op, r = e.left, e.ops[0], e.comparators[0]
        g_ = None
        if isinstance(op, (ast.IsNot, ast.NotEq)) and isinstance(r, ast.Constant) and r.value is None:
            g_ = l
        elif isinstance(op, ast.Eq) and isinstance(l, ast.Call) and isinstance(l.func, ast.Name) and l.func.id == "type" and len(l.args) == 1 \
                and isinstance(r, ast.Name) and r.id in ("str", "int", "list", "dict", "bytes", "bool", "float", "tuple"):
            g_ = l.args[0]
        if isinstance(g_, ast.Call) and isinstance(g_.func, ast.Attribute) and g_.func.attr == "get" and not g_.keywords \
                and (len(g_.args) == 1 or (len(g_.args) == 2 and isinstance(g_.args[1], ast.Constant) and g_.args[1].value is None)):
            out.add(f"{norm(g_.args[0])} in {norm(g_.func.value)}")
    # where K in D is known, D.get(K) and D[K] are the same value: give every fact in its subscript form too
    known = set()
    for t in set(texts) | out:
        m = _IN_RE.fullmatch(t)
        if m:
            known.add((m.group(1), m.group(2)))
    for t in list(texts) + list(out):
        t2 = t
        for k, d in known:
            t2 = t2.replace(f"{d}.get({k})", f"{d}[{k}]").replace(f"{d}.get({k}, None)", f"{d}[{k}]")
        if t2 != t:
            out.add(t2)
    return out


class Facts:
    """Interprocedural must-facts by dominance."""

    def __init__(self, A):
        self.A = A
        self._exit_memo = {}

    def local(self, fn, sc, cnode):
        g = self.A.cfg(fn, sc)
        out = []
        for pol, e, cond in g.edge_facts(cnode):
            if cond is not None and cond.kind == "for":
                continue
            out += make_facts(pol, e, fn, cond)
            out += self._through_flag(pol, e, fn, sc, cond)
        return out

    def _pv(self):
        if getattr(self, "PV", None) is None:
            from .prov import Prov
            self.PV = Prov(self.A)
        return self.PV

    def _through_flag(self, pol, e, fn, sc, cond, depth=0):
        """`flag = <boolean expression>; if flag:` - the facts of the defining expression hold too, provided
        the flag has exactly one reaching definition at the test and none of its operands is redefined between
        the definition and the test."""
        truth = pol == "T"
        while isinstance(e, ast.UnaryOp) and isinstance(e.op, ast.Not):
            e = e.operand
            truth = not truth
        if not isinstance(e, ast.Name) or cond is None or depth > 3 or isinstance(fn.node, ast.Lambda):
            return []
        PV = self._pv()
        try:
            rds = PV.reaching(fn, sc, e.id, cond)
        except AnalysisError:
            return []
        if len(rds) > 1 and all(x.kind == "assign" and isinstance(x.value, ast.Constant) for x in rds):
            # a flag set to constants (found = False ... found = True; break): testing it selects the definitions of that truth value;
            # with exactly one such definition, what was known when it ran is known at the test (operands not re-bound in between)
            sel = [x for x in rds if bool(x.value.value) == truth]
            if len(sel) != 1 or getattr(self, "_flag_depth", 0) > 2:
                return []
            d = sel[0]
            self._flag_depth = getattr(self, "_flag_depth", 0) + 1
            try:
                held = self.local(fn, sc, d.cnode)
            finally:
                self._flag_depth -= 1
            out = []
            for f in held:
                names = {n.id for part in ((f.left, f.right) if f.kind == "cmp" else (f.expr,)) for n in ast.walk(part)
                         if isinstance(n, ast.Name) and isinstance(n.ctx, ast.Load)}
                if self._stable_between(fn, sc, names, d.cnode, cond):
                    out.append(f)
            return out
        if len(rds) != 1 or rds[0].kind != "assign" or rds[0].value is None:
            return []
        d = rds[0]
        val = d.value
        for n in ast.walk(val):
            if isinstance(n, ast.Name) and isinstance(n.ctx, ast.Load):
                a = {x.cnode.id for x in PV.reaching(fn, sc, n.id, d.cnode)}
                b = {x.cnode.id for x in PV.reaching(fn, sc, n.id, cond)}
                if a != b:
                    return []
        if not self._stable_between(fn, sc, {n.id for n in ast.walk(val) if isinstance(n, ast.Name) and isinstance(n.ctx, ast.Load)}, d.cnode, cond):
            return []
        return self._derive(truth, val, fn, sc, d.cnode, depth)

    def _stable_between(self, fn, sc, names, frm, to):
        """No definition site of any of `names` can run between CFG node `frm` and the test `to` (not even the same site again, in a
        later loop iteration)."""
        PV = self._pv()
        g = self.A.cfg(fn, sc)
        try:
            defs = PV.defs(fn, sc)
        except AnalysisError:
            return False
        between = set()
        for s_ in g.succ[frm]:
            between |= g.reachable(s_, avoid={to})
        for nm in names:
            for d in defs.get(nm, []):
                if d.cnode is not None and d.cnode in between:
                    return False
        return True

    def _derive(self, truth, val, fn, sc, at, depth):
        while isinstance(val, ast.UnaryOp) and isinstance(val.op, ast.Not):
            val = val.operand
            truth = not truth
        if isinstance(val, ast.BoolOp):
            if (isinstance(val.op, ast.And) and truth) or (isinstance(val.op, ast.Or) and not truth):
                out = []
                for v in val.values:
                    out += self._derive(truth, v, fn, sc, at, depth)
                return out
            return []
        if isinstance(val, ast.Constant):
            return []
        out = make_facts("T" if truth else "F", val, fn, at, via="flag")
        out += self._through_flag("T" if truth else "F", val, fn, sc, at, depth + 1)
        return out

    def expanded(self, fn, sc, cnode, PV, canon=None, stop=()):
        """Local must-facts at cnode as canonical strings with every local name replaced by its
        definition(s) at the *condition's* node (so `if n > 255` after `n = len(xs)` reads
        `len(xs) > 255`).  canon: optional text canonicaliser (e.g. Layout.intexpr on a parsed
        expression).  A fact whose operands have several expansions yields one string per
        combination; raw (unexpanded) texts are included too."""
        out = set()
        cv = canon or (lambda e: norm(e))

        def exp(e, at):
            try:
                vs = PV.expand_consistent(fn, sc, e, at, stop=stop)
            except AnalysisError:
                return {norm(e)}
            res = set()
            for v in vs:
                try:
                    res.add(cv(ast.parse(v, mode="eval").body))
                except SyntaxError:
                    res.add(v)
            return res or {norm(e)}
        for f in self.local(fn, sc, cnode):
            out.add(f.text())
            at = f.node if f.node is not None else cnode
            if f.kind == "cmp":
                for l in exp(f.left, at):
                    for r in exp(f.right, at):
                        out.add(f"{l} {f.op} {r}")
            else:
                for v in exp(f.expr, at):
                    out.add(("" if f.pol else "not ") + v)
        return out | implied_texts(out)

    def exit_texts(self, fn, sc, PV, canon=None):
        """Texts of the facts that hold whenever fn returns normally, raw and with local names expanded."""
        out = set()
        cv = canon or (lambda e: norm(e))
        for f in self.exit_facts(fn, sc):
            out.add(f.text())
            if f.fn is not fn or f.node is None:
                continue

            def exp(e):
                try:
                    vs = PV.expand_consistent(fn, sc, e, f.node)
                except AnalysisError:
                    return {norm(e)}
                res = set()
                for v in vs:
                    try:
                        res.add(cv(ast.parse(v, mode="eval").body))
                    except SyntaxError:
                        res.add(v)
                return res or {norm(e)}
            if f.kind == "cmp":
                for l in exp(f.left):
                    for r in exp(f.right):
                        out.add(f"{l} {f.op} {r}")
            else:
                for v in exp(f.expr):
                    out.add(("" if f.pol else "not ") + v)
        return out | implied_texts(out)

    def completed_calls(self, fn, sc, cnode, include_self=False):
        """Call expressions whose normal completion dominates cnode."""
        g = self.A.cfg(fn, sc)
        out = []
        doms = g.dominators(cnode)
        for d in reversed(doms):
            if d is cnode and not include_self:
                continue
            if d.kind in ("stmt", "cond", "with", "for") and d.ast is not None:
                root = d.ast
                if d.kind == "for":
                    root = d.ast.iter
                if d.kind == "with":
                    for it in d.ast.items:
                        out += [(c, d) for c in calls_in(it.context_expr)]
                    continue
                if isinstance(root, (ast.FunctionDef, ast.AsyncFunctionDef, ast.ClassDef)):
                    continue
                out += [(c, d) for c in calls_in(root)]
        return out

    def exit_facts(self, fn, sc, depth=0):
        """Facts that hold whenever fn returns normally (dominate its exit),
        including those of callees completed on the way."""
        key = (fn.qualname, sc.qualname if sc else None)
        if key in self._exit_memo:
            return self._exit_memo[key]
        self._exit_memo[key] = []
        if depth > 6 or isinstance(fn.node, ast.Lambda):
            return []
        g = self.A.cfg(fn, sc)
        if not g.is_reachable(g.exit):
            return []
        out = self.at(fn, sc, g.exit, depth + 1, caller_context=False)
        self._exit_memo[key] = out
        return out

    def at(self, fn, sc, cnode, depth=0, caller_context=False):
        out = self.local(fn, sc, cnode)
        for call, d in self.completed_calls(fn, sc, cnode):
            cs = [c for c in self.A.resolve_call(call, fn, sc)]
            fns = [c for c in cs if c.fn is not None and c.how != "ctor"]
            if not fns or len(fns) != len([c for c in cs if c.how not in ("ctor-noinit",)]):
                continue
            sets = []
            for c in fns:
                sets.append(self.exit_facts(c.fn, c.self_cls, depth + 1))
            if not sets:
                continue
            # must-facts: keep those of the first callee that every other callee
            # also establishes (by text)
            first = sets[0]
            for f in first:
                if all(any(f.text() == g2.text() for g2 in s) for s in sets[1:]):
                    f2 = Fact(f.kind, f.fn, f.node, op=f.op, left=f.left, right=f.right,
                              pol=f.pol, expr=f.expr, via=f"after {norm(call)[:60]}")
                    out.append(f2)
        if caller_context:
            out += self.caller_facts(fn, sc, depth)
        return out

    def caller_facts(self, fn, sc, depth=0):
        """Facts holding at every call site of fn (intersection by text)."""
        if depth > 4:
            return []
        sites = self.A.call_sites_of(lambda c: c.fn is fn)
        sets = []
        for caller, call, hit in sites:
            if caller.qualname.endswith(".<module>"):
                return []
            g = self.A.cfg(caller, None)
            for cn in g.nodes_of(call):
                sets.append(self.at(caller, None, cn, depth + 1, caller_context=True))
        if not sets:
            return []
        first = sets[0]
        return [f for f in first
                if all(any(f.text() == g2.text() for g2 in s) for s in sets[1:])]


def fold(P, expr, fn, self_cls=None):
    """Fold an expression in the context of fn (self -> self_cls or fn.cls)."""
    cls = self_cls if self_cls is not None else fn.cls
    return unwrap(P.const_eval(expr, fn.module, cls=cls))


def try_fold(P, expr, fn, self_cls=None):
    try:
        return True, fold(P, expr, fn, self_cls)
    except (Unknown, AnalysisError):
        return False, None


def receiver_text(call):
    if isinstance(call.func, ast.Attribute):
        return norm(call.func.value)
    return ""


def returns_of(A, fn):
    return [n for n in A.own_nodes(fn) if isinstance(n, ast.Return)]


def assigned_names(node):
    out = []
    for n in ast.walk(node):
        if isinstance(n, ast.Name) and isinstance(n.ctx, ast.Store):
            out.append(n.id)
    return out


def defs_of(A, fn, name):
    """All assignment value expressions for local `name` in fn."""
    out = []
    for n in A.own_nodes(fn):
        if isinstance(n, ast.Assign):
            for t in n.targets:
                if isinstance(t, ast.Name) and t.id == name:
                    out.append(n)
        elif isinstance(n, ast.AugAssign) and isinstance(n.target, ast.Name) \
                and n.target.id == name:
            out.append(n)
        elif isinstance(n, ast.AnnAssign) and isinstance(n.target, ast.Name) \
                and n.target.id == name and n.value is not None:
            out.append(n)
    return out
