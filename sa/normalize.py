"""NORMALISE - behaviour-preserving AST rewrites applied to every module before
anything is indexed, so that the rules see one normal form of the code whatever
its surface shape:

  N1  helper inlining.  A call to a function of the same class / module that is
      *not* one of the functions the rules were written against
      (spec/known_functions.json: every function of the tree the rules were
      confirmed on) is an implementation detail of its caller: its body is
      spliced into the caller as an InlineBlock (parameters bound by explicit
      assignments, `return e` -> `<ret> = e; InlineJump`, clashing locals
      renamed).  The call must be statically resolvable (`self._h(..)` with no
      override anywhere, `Cls._h(..)` static, or a module-level function),
      unconditionally evaluated in its statement, non-recursive, no
      generators / *args / **kwargs.  The CFG builder gives InlineBlock /
      InlineJump their exact control flow (returns nested in loops or try
      blocks included).
  N3  setattr(x, "name", v) / getattr(x, "name") with a constant identifier -> plain attribute store / load.
  N5  statement-level conditional expressions: `x = A if C else B` / `return A if C else B` -> if / else statements.
  N6  `x = A or B` with A a plain name / attribute -> `if A: x = A else: x = B`.
  N4  quantifier loops: `for T in XS: if C: return K` -> `if any(C for T in XS): return K` (all() for a negated C) and
      `if any(G): return True; return False` -> `return any(G)`.
  N2  unrolling of `for` loops over a literal list / tuple display (or over a
      class / module constant that is such a display and is not in
      spec/known_functions.json's constants) of at most 8 items without
      break / continue in the body (also zip(..) / enumerate(..) of such displays, and locals bound once to one); constant items
      are substituted for the loop variables.

Every rewrite preserves behaviour (up to local names), so a rule that holds on
the normal form holds on the source.  A call that cannot be inlined is left
alone: the rules then either follow it interprocedurally or report the idiom
as not understood (exit 2)."""
import ast
import re
import copy
import json
import os

MAX_DEPTH = 4
MAX_UNROLL = 8


class InlineBlock(ast.stmt):
    _fields = ("prologue", "body", "epilogue")
    _attributes = ("lineno", "col_offset", "end_lineno", "end_col_offset")


class InlineJump(ast.stmt):
    _fields = ()
    _attributes = ("lineno", "col_offset", "end_lineno", "end_col_offset")


# make ast.unparse tolerate the two node kinds (used only in diagnostics)
def _install_unparse():
    U = getattr(ast, "_Unparser", None)
    if U is None or hasattr(U, "visit_InlineBlock"):
        return

    def visit_InlineBlock(self, node):
        for s in node.prologue + node.body + node.epilogue:
            self.traverse(s)

    def visit_InlineJump(self, node):
        self.fill("pass  # end of inlined helper")
    U.visit_InlineBlock = visit_InlineBlock
    U.visit_InlineJump = visit_InlineJump


_install_unparse()


def load_known(verif_root):
    p = os.path.join(verif_root, "spec", "known_functions.json")
    with open(p) as f:
        d = json.load(f)
    return set(d["functions"]), set(d["constants"])


def collect_symbols(modules):
    """(functions, constants) of the given {name: ModuleInfo-like(.tree)} - used to (re)generate the spec file."""
    fns, consts = [], []
    for name, mod in sorted(modules.items()):
        for st in mod.tree.body:
            if isinstance(st, (ast.FunctionDef, ast.AsyncFunctionDef)):
                fns.append(f"{name}:{st.name}")
            elif isinstance(st, ast.Assign):
                consts += [f"{name}:{t.id}" for t in st.targets if isinstance(t, ast.Name)]
            elif isinstance(st, ast.ClassDef):
                for s in st.body:
                    if isinstance(s, (ast.FunctionDef, ast.AsyncFunctionDef)):
                        fns.append(f"{name}:{st.name}.{s.name}")
                    elif isinstance(s, ast.Assign):
                        consts += [f"{name}:{st.name}.{t.id}" for t in s.targets if isinstance(t, ast.Name)]
    return sorted(set(fns)), sorted(set(consts))


def _local_names(fdef):
    """Names bound in a function (params, assignment / for / with / except targets), not descending into nested defs."""
    out = set()
    a = fdef.args
    for x in a.posonlyargs + a.args + a.kwonlyargs:
        out.add(x.arg)
    if a.vararg:
        out.add(a.vararg.arg)
    if a.kwarg:
        out.add(a.kwarg.arg)

    def visit(n):
        for c in ast.iter_child_nodes(n):
            if isinstance(c, (ast.FunctionDef, ast.AsyncFunctionDef, ast.ClassDef)):
                out.add(c.name)
                continue
            if isinstance(c, ast.Lambda):
                continue
            if isinstance(c, ast.Name) and isinstance(c.ctx, (ast.Store, ast.Del)):
                out.add(c.id)
            if isinstance(c, ast.ExceptHandler) and c.name:
                out.add(c.name)
            if isinstance(c, (ast.ListComp, ast.SetComp, ast.DictComp, ast.GeneratorExp)):
                continue
            visit(c)
    for s in fdef.body:
        visit(ast.Module(body=[s], type_ignores=[]))
    return out


def _is_const(e):
    if isinstance(e, ast.Constant):
        return True
    if isinstance(e, (ast.Tuple, ast.List)):
        return all(_is_const(x) for x in e.elts)
    return False


def _const_binding(target, value):
    """{name: constant AST} when `target = value` binds plain names to constants only, else None."""
    if isinstance(target, ast.Name):
        return {target.id: value} if _is_const(value) else None
    if isinstance(target, (ast.Tuple, ast.List)) and isinstance(value, (ast.Tuple, ast.List)) and len(target.elts) == len(value.elts):
        out = {}
        for t, v in zip(target.elts, value.elts):
            sub = _const_binding(t, v)
            if sub is None:
                return None
            out.update(sub)
        return out
    return None


def _flat_pairs(target, value):
    """[(name, value AST)] when `target = value` binds plain names element-wise, else None"""
    if isinstance(target, ast.Name):
        return [(target.id, value)]
    if isinstance(target, (ast.Tuple, ast.List)) and isinstance(value, (ast.Tuple, ast.List)) and len(target.elts) == len(value.elts):
        out = []
        for t, v in zip(target.elts, value.elts):
            sub = _flat_pairs(t, v)
            if sub is None:
                return None
            out += sub
        return out
    return None


def _stable_path(e):
    """self.A.B.C / Class.A.B with every attribute written as a constant (UPPER_CASE): the repository's class-level constants"""
    n = 0
    while isinstance(e, ast.Attribute):
        if not re.fullmatch(r"_?[A-Z][A-Z0-9_]*", e.attr):
            return False
        e = e.value
        n += 1
    return n > 0 and isinstance(e, ast.Name)


class _ConstSub(ast.NodeTransformer):
    def __init__(self, m):
        self.m = m

    def visit_Name(self, node):
        if isinstance(node.ctx, ast.Load) and node.id in self.m:
            return ast.copy_location(copy.deepcopy(self.m[node.id]), node)
        return node

    def visit_FormattedValue(self, node):
        self.generic_visit(node)
        return node

    def visit_BinOp(self, node):
        # a key or a message assembled from substituted text constants is that text: "updating." + "in_progress"
        self.generic_visit(node)
        if isinstance(node.op, ast.Add) and isinstance(node.left, ast.Constant) and isinstance(node.right, ast.Constant) \
                and type(node.left.value) is type(node.right.value) and isinstance(node.left.value, (str, bytes)):
            return ast.copy_location(ast.Constant(value=node.left.value + node.right.value), node)
        if isinstance(node.op, ast.Mod) and isinstance(node.left, ast.Constant) and isinstance(node.left.value, str) \
                and isinstance(node.right, ast.Constant) and isinstance(node.right.value, (str, int)) and not isinstance(node.right.value, bool):
            try:
                return ast.copy_location(ast.Constant(value=node.left.value % node.right.value), node)
            except (TypeError, ValueError):
                return node
        return node


class _AttrCalls(ast.NodeTransformer):
    """N3: setattr(x, "name", v) -> x.name = v ; getattr(x, "name") -> x.name   (constant identifier names)"""

    def visit_Expr(self, node):
        self.generic_visit(node)
        c = node.value
        if isinstance(c, ast.Call) and isinstance(c.func, ast.Name) and c.func.id == "setattr" and len(c.args) == 3 and not c.keywords \
                and isinstance(c.args[1], ast.Constant) and isinstance(c.args[1].value, str) and c.args[1].value.isidentifier():
            a = ast.Assign(targets=[ast.Attribute(value=c.args[0], attr=c.args[1].value, ctx=ast.Store())], value=c.args[2], type_comment=None)
            ast.copy_location(a, node)
            ast.fix_missing_locations(a)
            return a
        return node

    def visit_Subscript(self, node):
        self.generic_visit(node)
        # N15: next(filter(lambda p: p[0] == K, M.items()), (None, None))[1]  ->  M.get(K)   (the value stored under K, or None)
        v = node.value
        if isinstance(node.ctx, ast.Load) and isinstance(node.slice, ast.Constant) and node.slice.value == 1 and isinstance(v, ast.Call) \
                and isinstance(v.func, ast.Name) and v.func.id == "next" and len(v.args) == 2 and not v.keywords \
                and isinstance(v.args[1], ast.Tuple) and len(v.args[1].elts) == 2 \
                and all(isinstance(e, ast.Constant) and e.value is None for e in v.args[1].elts):
            f = v.args[0]
            if isinstance(f, ast.Call) and isinstance(f.func, ast.Name) and f.func.id == "filter" and len(f.args) == 2 and not f.keywords \
                    and isinstance(f.args[0], ast.Lambda) and len(f.args[0].args.args) == 1 \
                    and isinstance(f.args[1], ast.Call) and isinstance(f.args[1].func, ast.Attribute) and f.args[1].func.attr == "items" and not f.args[1].args:
                p = f.args[0].args.args[0].arg
                b = f.args[0].body
                if isinstance(b, ast.Compare) and len(b.ops) == 1 and isinstance(b.ops[0], ast.Eq):
                    sides = [b.left, b.comparators[0]]
                    pk = [x for x in sides if isinstance(x, ast.Subscript) and isinstance(x.value, ast.Name) and x.value.id == p
                          and isinstance(x.slice, ast.Constant) and x.slice.value == 0]
                    ks = [x for x in sides if x not in pk]
                    if len(pk) == 1 and len(ks) == 1 and not any(isinstance(n, ast.Name) and n.id == p for n in ast.walk(ks[0])):
                        return ast.copy_location(ast.Call(func=ast.Attribute(value=f.args[1].func.value, attr="get", ctx=ast.Load()), args=[ks[0]], keywords=[]), node)
        return node

    def visit_Call(self, node):
        self.generic_visit(node)
        # N32: dict(a=x, b=y) -> {"a": x, "b": y}   (keyword form of a display; same key order, same evaluation order)
        if isinstance(node.func, ast.Name) and node.func.id == "dict" and not node.args and node.keywords and all(k.arg is not None for k in node.keywords):
            d = ast.Dict(keys=[ast.Constant(value=k.arg) for k in node.keywords], values=[k.value for k in node.keywords])
            ast.copy_location(d, node)
            ast.fix_missing_locations(d)
            return d
        if isinstance(node.func, ast.Name) and node.func.id == "getattr" and len(node.args) == 2 and not node.keywords \
                and isinstance(node.args[1], ast.Constant) and isinstance(node.args[1].value, str) and node.args[1].value.isidentifier():
            return ast.copy_location(ast.Attribute(value=node.args[0], attr=node.args[1].value, ctx=ast.Load()), node)
        # all(all(P for y in x) for x in xs) -> all(P for x in xs for y in x)   (any / any alike): one quantifier over the nested iteration
        if isinstance(node.func, ast.Name) and node.func.id in ("all", "any") and len(node.args) == 1 and not node.keywords \
                and isinstance(node.args[0], ast.GeneratorExp):
            ge = node.args[0]
            inner = ge.elt
            if isinstance(inner, ast.Call) and isinstance(inner.func, ast.Name) and inner.func.id == node.func.id and len(inner.args) == 1 \
                    and not inner.keywords and isinstance(inner.args[0], ast.GeneratorExp):
                ig = inner.args[0]
                node.args[0] = ast.copy_location(ast.GeneratorExp(elt=ig.elt, generators=list(ge.generators) + list(ig.generators)), ge)
                return node
        # N14: b"".join([a, b, c]) / "".join((a, b)) over a literal display of two or more items -> a + b + c
        if isinstance(node.func, ast.Attribute) and node.func.attr == "join" and isinstance(node.func.value, ast.Constant) \
                and node.func.value.value in (b"", "") and len(node.args) == 1 and not node.keywords \
                and isinstance(node.args[0], (ast.List, ast.Tuple)) and len(node.args[0].elts) >= 2 \
                and not any(isinstance(e, ast.Starred) for e in node.args[0].elts):
            acc = node.args[0].elts[0]
            for e in node.args[0].elts[1:]:
                acc = ast.copy_location(ast.BinOp(left=acc, op=ast.Add(), right=e), node)
            return acc
        # N8: sum([a, b, c]) over a literal display of two or more items -> a + b + c (numbers: the leading `0 +` of sum() changes nothing)
        if isinstance(node.func, ast.Name) and node.func.id == "sum" and len(node.args) == 1 and not node.keywords \
                and isinstance(node.args[0], (ast.List, ast.Tuple)) and len(node.args[0].elts) >= 2 \
                and not any(isinstance(e, ast.Starred) for e in node.args[0].elts):
            acc = node.args[0].elts[0]
            for e in node.args[0].elts[1:]:
                acc = ast.copy_location(ast.BinOp(left=acc, op=ast.Add(), right=e), node)
            return acc
        return node


def _single_displays(fdef):
    """{name: display} for locals assigned exactly once, at function level, to a list / tuple display of names, attributes and constants"""
    count, disp = {}, {}
    for x in ast.walk(fdef):
        if isinstance(x, ast.Name) and isinstance(x.ctx, (ast.Store, ast.Del)):
            count[x.id] = count.get(x.id, 0) + 1
    for st in fdef.body:
        if isinstance(st, ast.Assign) and len(st.targets) == 1 and isinstance(st.targets[0], ast.Name) and isinstance(st.value, (ast.List, ast.Tuple)) \
                and all(_side_effect_free(e) or (isinstance(e, (ast.Tuple, ast.List)) and all(_side_effect_free(x) or _is_const(x) for x in e.elts)) for e in st.value.elts):
            disp[st.targets[0].id] = st.value
    return {k: v for k, v in disp.items() if count.get(k) == 1}


def _side_effect_free(e):
    """a plain name / attribute chain / constant: may be evaluated twice without anyone noticing"""
    while isinstance(e, ast.Attribute):
        e = e.value
    return isinstance(e, (ast.Name, ast.Constant))


def _negate(c):
    """-> the negation of c when c is syntactically negative (not X, a not in b, a != b, a is not b), else None"""
    if isinstance(c, ast.UnaryOp) and isinstance(c.op, ast.Not):
        return c.operand
    if isinstance(c, ast.Compare) and len(c.ops) == 1:
        flip = {ast.NotIn: ast.In, ast.NotEq: ast.Eq, ast.IsNot: ast.Is}
        if type(c.ops[0]) in flip:
            return ast.copy_location(ast.Compare(left=c.left, ops=[flip[type(c.ops[0])]()], comparators=c.comparators), c)
    return None


def _quantifier_loops(stmts):
    """N4: `for T in XS: if C: return K` (K a constant, nothing else in the loop)  ->  `if any(C for T in XS): return K`
    (`if not all(not-C ...)` when C is a negation); then `if any(G): return True; return False` -> `return any(G)` and
    `if not all(G): return False; return True` -> `return all(G)`.  Same evaluation order and short-circuiting."""
    out = []
    for st in stmts:
        if isinstance(st, ast.For) and not st.orelse and len(st.body) == 1 and isinstance(st.body[0], ast.If) \
                and not st.body[0].orelse and len(st.body[0].body) == 1 and isinstance(st.body[0].body[0], ast.Return) \
                and isinstance(st.body[0].body[0].value, ast.Constant):
            c = st.body[0].test
            neg = _negate(c)
            if neg is not None:
                gen = ast.GeneratorExp(elt=neg, generators=[ast.comprehension(target=st.target, iter=st.iter, ifs=[], is_async=0)])
                test = ast.UnaryOp(op=ast.Not(), operand=ast.Call(func=ast.Name(id="all", ctx=ast.Load()), args=[gen], keywords=[]))
            else:
                gen = ast.GeneratorExp(elt=c, generators=[ast.comprehension(target=st.target, iter=st.iter, ifs=[], is_async=0)])
                test = ast.Call(func=ast.Name(id="any", ctx=ast.Load()), args=[gen], keywords=[])
            new = ast.If(test=test, body=st.body[0].body, orelse=[])
            ast.copy_location(new, st)
            ast.fix_missing_locations(new)
            st = new
        if isinstance(st, ast.Return) and isinstance(st.value, ast.Constant) and isinstance(st.value.value, bool) and out \
                and isinstance(out[-1], ast.If) and not out[-1].orelse and len(out[-1].body) == 1 and isinstance(out[-1].body[0], ast.Return) \
                and isinstance(out[-1].body[0].value, ast.Constant) and out[-1].body[0].value.value is (not st.value.value):
            t = out[-1].test
            k = out[-1].body[0].value.value
            q = None
            if k is True and isinstance(t, ast.Call) and isinstance(t.func, ast.Name) and t.func.id == "any" and len(t.args) == 1 \
                    and isinstance(t.args[0], ast.GeneratorExp):
                q = t
            if k is False and isinstance(t, ast.UnaryOp) and isinstance(t.op, ast.Not) and isinstance(t.operand, ast.Call) \
                    and isinstance(t.operand.func, ast.Name) and t.operand.func.id == "all" and len(t.operand.args) == 1 \
                    and isinstance(t.operand.args[0], ast.GeneratorExp):
                q = t.operand
            if q is not None:
                new = ast.Return(value=q)
                ast.copy_location(new, out[-1])
                ast.fix_missing_locations(new)
                out[-1] = new
                continue
        out.append(st)
    return out


def _inplace_maps(stmts):
    """N46: `for i, x in enumerate(S): S[i] = F(x)` (nothing else in the loop; F(x) mentions neither i nor S)  ->  `S = [F(x) for x in S]`:
    position i is read before it is written and never again, so every element is replaced by F of its old value, in order."""
    out = []
    for st in stmts:
        if isinstance(st, ast.For) and not st.orelse and len(st.body) == 1 and isinstance(st.target, ast.Tuple) and len(st.target.elts) == 2 \
                and all(isinstance(t, ast.Name) for t in st.target.elts) and isinstance(st.iter, ast.Call) and isinstance(st.iter.func, ast.Name) \
                and st.iter.func.id == "enumerate" and len(st.iter.args) == 1 and not st.iter.keywords and _side_effect_free(st.iter.args[0]) \
                and isinstance(st.body[0], ast.Assign) and len(st.body[0].targets) == 1 and isinstance(st.body[0].targets[0], ast.Subscript):
            i, x = st.target.elts[0].id, st.target.elts[1].id
            S = st.iter.args[0]
            tgt, val = st.body[0].targets[0], st.body[0].value
            names = {n.id for n in ast.walk(val) if isinstance(n, ast.Name)}
            s_txt = ast.unparse(S)
            if ast.unparse(tgt.value) == s_txt and isinstance(tgt.slice, ast.Name) and tgt.slice.id == i and i not in names and i != x \
                    and s_txt not in ast.unparse(val):
                comp = ast.ListComp(elt=val, generators=[ast.comprehension(target=ast.Name(id=x, ctx=ast.Store()), iter=copy.deepcopy(S), ifs=[], is_async=0)])
                tg = copy.deepcopy(S)
                tg.ctx = ast.Store()
                new = ast.copy_location(ast.Assign(targets=[tg], value=comp, type_comment=None), st)
                ast.fix_missing_locations(new)
                out.append(new)
                continue
        out.append(st)
    return out


def _genexp_loops(stmts, root=None):
    """N44: a generator expression consumed by one `for`, written in the loop's head or bound by the statement just before it and used nowhere else,

        G = (E for T in XS if C)           for T in XS:
        for x in G: B               ->         if C:        (when there is a condition; B without `continue` then)
                                                   x = E; B

    - the same interleaving of E, C and B that the lazy generator gives.  T must not be a name the function uses otherwise."""
    out = []
    for st in stmts:
        if isinstance(st, ast.For) and not st.orelse and isinstance(st.target, ast.Name):
            gen, bound = None, None
            if isinstance(st.iter, ast.GeneratorExp):
                gen = st.iter
            elif isinstance(st.iter, ast.Name) and out and isinstance(out[-1], ast.Assign) and len(out[-1].targets) == 1 and isinstance(out[-1].targets[0], ast.Name) \
                    and out[-1].targets[0].id == st.iter.id and isinstance(out[-1].value, ast.GeneratorExp) and root is not None \
                    and sum(1 for n in ast.walk(root) if isinstance(n, ast.Name) and n.id == st.iter.id) == 2:
                gen, bound = out[-1].value, out[-1]
            if gen is not None and len(gen.generators) == 1 and not gen.generators[0].is_async:
                g0 = gen.generators[0]
                tn = {n.id for n in ast.walk(g0.target) if isinstance(n, ast.Name)}
                others = {n.id for n in ast.walk(root if root is not None else ast.Module(body=stmts, type_ignores=[])) if isinstance(n, ast.Name)} if tn else set()
                inside = {n.id for n in ast.walk(gen) if isinstance(n, ast.Name)}
                clash = {t for t in tn if sum(1 for n in ast.walk(root if root is not None else ast.Module(body=stmts, type_ignores=[]))
                                               if isinstance(n, ast.Name) and n.id == t) > sum(1 for n in ast.walk(gen) if isinstance(n, ast.Name) and n.id == t)}
                has_continue = any(isinstance(x, ast.Continue) for b in st.body for x in ast.walk(b))
                if not clash and st.target.id not in inside and not (g0.ifs and has_continue) and others is not None:
                    asg = ast.copy_location(ast.Assign(targets=[ast.Name(id=st.target.id, ctx=ast.Store())], value=gen.elt, type_comment=None), st)
                    body = [asg] + list(st.body)
                    if g0.ifs:
                        cond = g0.ifs[0] if len(g0.ifs) == 1 else ast.BoolOp(op=ast.And(), values=list(g0.ifs))
                        body = [ast.copy_location(ast.If(test=cond, body=body, orelse=[]), st)]
                    new = ast.copy_location(ast.For(target=g0.target, iter=g0.iter, body=body, orelse=[], type_comment=None), st)

                    class _St(ast.NodeTransformer):
                        def visit_Name(s_, node):
                            return node
                    for n in ast.walk(new.target):
                        if isinstance(n, (ast.Name, ast.Tuple, ast.List)):
                            n.ctx = ast.Store()
                    ast.fix_missing_locations(new)
                    if bound is not None:
                        out.pop()
                    out.append(new)
                    continue
        out.append(st)
    return out


def _unpack_fields(stmts):
    """N39: `a, b, c = struct.unpack("32s36sB", X)` (X a plain name; only `Ns`, `B`, `x` items, or fixed-endian unsigned H / I / Q)
        ->  struct.unpack("32s36sB", X)            (kept for what it may raise: the length must match)
            a = X[0:32]; b = X[32:68]; c = X[68]   (integers wider than a byte: int.from_bytes(X[i:j], byteorder=.., signed=False))"""
    out = []
    for st in stmts:
        v = st.value if isinstance(st, ast.Assign) else None
        if not (isinstance(st, ast.Assign) and len(st.targets) == 1 and isinstance(st.targets[0], (ast.Tuple, ast.List)) and isinstance(v, ast.Call)
                and isinstance(v.func, ast.Attribute) and isinstance(v.func.value, ast.Name) and v.func.value.id == "struct" and v.func.attr == "unpack"
                and len(v.args) == 2 and not v.keywords and isinstance(v.args[0], ast.Constant) and isinstance(v.args[0].value, str) and isinstance(v.args[1], ast.Name)
                and all(isinstance(t, ast.Name) for t in st.targets[0].elts)):
            out.append(st)
            continue
        m = re.fullmatch(r"([<>!=]?)((?:\d*[sBxHIQ])+)", v.args[0].value)
        fields, pos, ok = [], 0, m is not None
        if ok:
            order = {"<": "little", ">": "big", "!": "big"}.get(m.group(1))
            for cnt, ch in re.findall(r"(\d*)([sBxHIQ])", m.group(2)):
                n = int(cnt) if cnt else 1
                if ch == "s":
                    fields.append(("s", pos, pos + n))
                    pos += n
                elif ch == "x":
                    pos += n
                else:
                    w = {"B": 1, "H": 2, "I": 4, "Q": 8}[ch]
                    if w > 1 and order is None:
                        ok = False
                        break
                    for _ in range(n):
                        fields.append((ch, pos, pos + w))
                        pos += w
        X = v.args[1].id
        tn = [t.id for t in st.targets[0].elts]
        if not ok or len(fields) != len(tn) or X in tn or len(set(tn)) != len(tn):
            out.append(st)
            continue
        keep = ast.copy_location(ast.Expr(value=v), st)
        out.append(keep)
        for t, (ch, a, b) in zip(tn, fields):
            x = ast.Name(id=X, ctx=ast.Load())
            if ch == "B":
                val = ast.Subscript(value=x, slice=ast.Constant(value=a), ctx=ast.Load())
            else:
                val = ast.Subscript(value=x, slice=ast.Slice(lower=ast.Constant(value=a), upper=ast.Constant(value=b), step=None), ctx=ast.Load())
                if ch != "s":
                    val = ast.Call(func=ast.Attribute(value=ast.Name(id="int", ctx=ast.Load()), attr="from_bytes", ctx=ast.Load()), args=[val],
                                   keywords=[ast.keyword(arg="byteorder", value=ast.Constant(value=order)), ast.keyword(arg="signed", value=ast.Constant(value=False))])
            a_ = ast.copy_location(ast.Assign(targets=[ast.Name(id=t, ctx=ast.Store())], value=val, type_comment=None), st)
            ast.fix_missing_locations(a_)
            out.append(a_)
    return out


def _counted_list_loops(stmts):
    """N35: a list filled by a loop that runs until it has K elements,

        L = []                       L = []
        while len(L) < K:            B[L.append(E) := L__e1 = E]; ...; B[L.append(E) := L__eK = E]
            B   (one L.append(E))    L = [L__e1, ..., L__eK]

    for a constant K <= MAX_UNROLL, when B mentions L only in that one top-level append, has no break / continue / return and nothing between
    the `L = []` and the loop mentions L.  A following `a, b, .. = L` (K targets, L not mentioned in between) becomes a = L__e1; b = L__e2; ..."""
    def mentions(node, nm):
        return any(isinstance(x, ast.Name) and x.id == nm for x in ast.walk(node))
    out = list(stmts)
    i = 0
    while i < len(out):
        st = out[i]
        i += 1
        if not (isinstance(st, ast.While) and not st.orelse and isinstance(st.test, ast.Compare) and len(st.test.ops) == 1 and isinstance(st.test.ops[0], ast.Lt)
                and isinstance(st.test.left, ast.Call) and isinstance(st.test.left.func, ast.Name) and st.test.left.func.id == "len" and len(st.test.left.args) == 1
                and isinstance(st.test.left.args[0], ast.Name) and isinstance(st.test.comparators[0], ast.Constant)
                and type(st.test.comparators[0].value) is int and 1 <= st.test.comparators[0].value <= MAX_UNROLL):
            continue
        L, K = st.test.left.args[0].id, st.test.comparators[0].value
        at = i - 1
        j = at - 1
        while j >= 0 and not mentions(out[j], L) and not isinstance(out[j], (ast.For, ast.While, ast.If, ast.Try, ast.With, ast.FunctionDef, InlineBlock)):
            j -= 1
        if j < 0 or not (isinstance(out[j], ast.Assign) and len(out[j].targets) == 1 and isinstance(out[j].targets[0], ast.Name) and out[j].targets[0].id == L
                         and isinstance(out[j].value, ast.List) and not out[j].value.elts):
            continue
        apps = [k for k, b in enumerate(st.body) if isinstance(b, ast.Expr) and isinstance(b.value, ast.Call) and isinstance(b.value.func, ast.Attribute)
                and b.value.func.attr == "append" and isinstance(b.value.func.value, ast.Name) and b.value.func.value.id == L and len(b.value.args) == 1
                and not b.value.keywords and not mentions(b.value.args[0], L)]
        if len(apps) != 1 or any(mentions(b, L) for k, b in enumerate(st.body) if k != apps[0]):
            continue
        if any(isinstance(x, (ast.Break, ast.Continue, ast.Return, ast.FunctionDef, ast.Lambda, InlineJump)) for b in st.body for x in ast.walk(b)):
            continue
        new, temps = [], []
        for k in range(1, K + 1):
            t = f"{L}__e{k}"
            temps.append(t)
            for idx, b in enumerate(copy.deepcopy(st.body)):
                if idx == apps[0]:
                    b = ast.copy_location(ast.Assign(targets=[ast.Name(id=t, ctx=ast.Store())], value=b.value.args[0], type_comment=None), b)
                    ast.fix_missing_locations(b)
                new.append(b)
        fin = ast.copy_location(ast.Assign(targets=[ast.Name(id=L, ctx=ast.Store())],
                                           value=ast.List(elts=[ast.Name(id=t, ctx=ast.Load()) for t in temps], ctx=ast.Load()), type_comment=None), st)
        ast.fix_missing_locations(fin)
        new.append(fin)
        out[at:at + 1] = new
        i = at + len(new)
        # a destructuring of the finished list
        k = i
        while k < len(out):
            s2 = out[k]
            if isinstance(s2, ast.Assign) and len(s2.targets) == 1 and isinstance(s2.targets[0], (ast.Tuple, ast.List)) and isinstance(s2.value, ast.Name) and s2.value.id == L \
                    and len(s2.targets[0].elts) == K and all(isinstance(e_, ast.Name) for e_ in s2.targets[0].elts) and len({e_.id for e_ in s2.targets[0].elts}) == K:
                parts = []
                for e_, t in zip(s2.targets[0].elts, temps):
                    a_ = ast.copy_location(ast.Assign(targets=[ast.Name(id=e_.id, ctx=ast.Store())], value=ast.Name(id=t, ctx=ast.Load()), type_comment=None), s2)
                    ast.fix_missing_locations(a_)
                    parts.append(a_)
                out[k:k + 1] = parts
                break
            if mentions(s2, L) or any(mentions(s2, t) for t in temps) or isinstance(s2, (ast.For, ast.While, ast.If, ast.Try, ast.With, ast.FunctionDef, InlineBlock)):
                break
            k += 1
    return out


def _ends_flow(stmts):
    if not stmts:
        return False
    last = stmts[-1]
    if isinstance(last, (ast.Return, ast.Raise, ast.Continue, ast.Break, InlineJump)):
        return True
    if isinstance(last, ast.If):
        return bool(last.orelse) and _ends_flow(last.body) and _ends_flow(last.orelse)
    if isinstance(last, ast.Try):
        if last.finalbody and _ends_flow(last.finalbody):
            return True
        return _ends_flow(last.orelse if last.orelse else last.body) and all(_ends_flow(h.body) for h in last.handlers)
    if isinstance(last, ast.While) and isinstance(last.test, ast.Constant) and last.test.value is True and not last.orelse:
        # `while True:` without a break of its own is left only by return / raise / an inlined helper's own jump
        def has_break(ss):
            for s_ in ss:
                if isinstance(s_, ast.Break):
                    return True
                if isinstance(s_, (ast.For, ast.While, ast.FunctionDef, ast.AsyncFunctionDef, ast.ClassDef)):
                    if has_break(getattr(s_, "orelse", []) or []):
                        return True
                    continue
                for owner, f in _child_lists(s_):
                    if has_break(getattr(owner, f)):
                        return True
            return False
        return not has_break(last.body)
    return False


def _simplify_const_bool(t):
    """`True and X` -> X, `False and X` -> False, `False or X` -> X, `True or X` -> True (boolean constants only, as left by constant substitution)"""
    if isinstance(t, ast.BoolOp):
        vals = [_simplify_const_bool(v) for v in t.values]
        is_and = isinstance(t.op, ast.And)
        keep = []
        for i_, v in enumerate(vals):
            if isinstance(v, ast.Constant) and isinstance(v.value, bool):
                if v.value is (not is_and):
                    # decides the whole expression once reached: later operands are not evaluated
                    keep.append(v)
                    break
                if i_ < len(vals) - 1 or keep:
                    continue        # neutral element (its value only matters as the last operand of an otherwise empty chain)
            keep.append(v)
        if not keep:
            return ast.copy_location(ast.Constant(value=is_and), t)
        if len(keep) == 1:
            return keep[0]
        if isinstance(keep[-1], ast.Constant) and isinstance(keep[-1].value, bool) and keep[-1].value is (not is_and) and len(keep) > 1:
            # `X and False`: X is still evaluated; value is X's falsy value or False: not a plain constant -> leave
            pass
        return ast.copy_location(ast.BoolOp(op=t.op, values=keep), t)
    if isinstance(t, ast.UnaryOp) and isinstance(t.op, ast.Not):
        v = _simplify_const_bool(t.operand)
        if isinstance(v, ast.Constant) and isinstance(v.value, bool):
            return ast.copy_location(ast.Constant(value=not v.value), t)
        return ast.copy_location(ast.UnaryOp(op=ast.Not(), operand=v), t)
    return t


def _prune_const_ifs(stmts):
    """`if True: A else: B` -> A, `if False: A else: B` -> B; statements after a statement that always leaves are dropped."""
    out = []
    for st in stmts:
        if isinstance(st, ast.If):
            st.body = _prune_const_ifs(st.body)
            st.orelse = _prune_const_ifs(st.orelse)
            st.test = _simplify_const_bool(st.test)
            if isinstance(st.test, ast.Constant) and isinstance(st.test.value, bool):
                out += st.body if st.test.value else st.orelse
            else:
                if not st.body:
                    st.body = [ast.copy_location(ast.Pass(), st)]
                out.append(st)
        elif isinstance(st, InlineBlock):
            st.body = _prune_const_ifs(st.body)
            st.epilogue = _prune_const_ifs(st.epilogue)
            out.append(st)
        elif isinstance(st, (ast.For, ast.While, ast.With)):
            st.body = _prune_const_ifs(st.body) or [ast.copy_location(ast.Pass(), st)]
            if hasattr(st, "orelse"):
                st.orelse = _prune_const_ifs(st.orelse)
            out.append(st)
        elif isinstance(st, ast.Try):
            st.body = _prune_const_ifs(st.body) or [ast.copy_location(ast.Pass(), st)]
            st.orelse = _prune_const_ifs(st.orelse)
            st.finalbody = _prune_const_ifs(st.finalbody)
            for h in st.handlers:
                h.body = _prune_const_ifs(h.body) or [ast.copy_location(ast.Pass(), h)]
            out.append(st)
        else:
            out.append(st)
        if out and isinstance(out[-1], (ast.Return, ast.Raise, ast.Continue, ast.Break)):
            break
        if out and isinstance(out[-1], InlineJump):
            break
    return out


def _own_jumps(stmts):
    """InlineJump statements of this block (not those of nested inlined blocks)"""
    n = 0
    for st in stmts:
        if isinstance(st, InlineJump):
            n += 1
        elif isinstance(st, InlineBlock):
            n += _own_jumps(st.epilogue)
        else:
            for f in ("body", "orelse", "finalbody"):
                n += _own_jumps(getattr(st, f, []) or [])
            for h in getattr(st, "handlers", []) or []:
                n += _own_jumps(h.body)
    return n


def _thread_boolean_result(blk):
    """An inlined predicate whose every return is a boolean constant, called as the test of an `if`: each `<result> = K; jump` of the body is
    replaced by a copy of the branch the `if` takes for K (jump threading), and the `if` on the temporary disappears."""
    if len(blk.epilogue) != 1 or not isinstance(blk.epilogue[0], ast.If):
        return
    iff = blk.epilogue[0]
    t, neg = iff.test, False
    rest = None
    if isinstance(t, ast.BoolOp) and isinstance(t.op, ast.And) and isinstance(t.values[0], ast.Name) and t.values[0].id == blk.ret \
            and not any(isinstance(x, ast.Name) and x.id == blk.ret for v_ in t.values[1:] for x in ast.walk(v_)):
        # `if <result> and REST:` - a false result takes the else branch, a true one leaves `if REST:`
        rest = t.values[1] if len(t.values) == 2 else ast.copy_location(ast.BoolOp(op=ast.And(), values=list(t.values[1:])), t)
        t = t.values[0]
    while rest is None and isinstance(t, ast.UnaryOp) and isinstance(t.op, ast.Not):
        t, neg = t.operand, not neg
    if not (isinstance(t, ast.Name) and t.id == blk.ret):
        return
    sites = []

    def branch_for(k):
        if rest is None:
            return iff.body if (k != neg) else iff.orelse
        if not k:
            return iff.orelse
        n_ = ast.copy_location(ast.If(test=copy.deepcopy(rest), body=copy.deepcopy(iff.body), orelse=copy.deepcopy(iff.orelse)), iff)
        ast.fix_missing_locations(n_)
        return [n_]

    def scan(stmts, owner_ok=True):
        for i, s_ in enumerate(stmts):
            if isinstance(s_, InlineBlock):
                # an inner block's own jumps are not ours; its epilogue may hold ours
                if any(isinstance(x, ast.Name) and x.id == blk.ret for p_ in (s_.prologue, s_.body) for y in p_ for x in ast.walk(y)):
                    sites.append(None)
                scan(s_.epilogue)
                continue
            if isinstance(s_, ast.Assign) and len(s_.targets) == 1 and isinstance(s_.targets[0], ast.Name) and s_.targets[0].id == blk.ret:
                if (isinstance(s_.value, ast.Constant) and isinstance(s_.value.value, bool) or _is_boolish(s_.value)) \
                        and i + 1 < len(stmts) and isinstance(stmts[i + 1], InlineJump):
                    sites.append((stmts, i))
                elif isinstance(s_.value, ast.Constant) and s_.value.value is None and i == len(stmts) - 1 and stmts is blk.body:
                    sites.append((stmts, i, "tail-none"))
                else:
                    sites.append(None)
                continue
            if any(isinstance(x, ast.Name) and x.id == blk.ret for x in ast.walk(s_)) and not any(isinstance(getattr(s_, f, None), list) for f in ("body", "orelse", "finalbody")):
                sites.append(None)
            for f in ("body", "orelse", "finalbody"):
                if isinstance(getattr(s_, f, None), list) and not isinstance(s_, (ast.FunctionDef, ast.AsyncFunctionDef, ast.ClassDef)):
                    scan(getattr(s_, f))
            for h in getattr(s_, "handlers", []) or []:
                scan(h.body)
    scan(blk.body)
    if not sites or any(x is None for x in sites):
        return
    # apply from the back of each list so that indices stay valid
    for site in sorted([x for x in sites if len(x) == 2], key=lambda x: -x[1]):
        stmts, i = site
        if isinstance(stmts[i].value, ast.Constant):
            k = stmts[i].value.value
            taken = branch_for(k)
            stmts[i:i + 1] = copy.deepcopy(taken)
        else:
            # a boolean expression returned: the `if` is taken on it directly
            tb, fb = (iff.orelse, iff.body) if neg else (iff.body, iff.orelse)
            tst = stmts[i].value
            if rest is not None:
                tst = ast.copy_location(ast.BoolOp(op=ast.And(), values=[tst] + (copy.deepcopy(rest.values) if isinstance(rest, ast.BoolOp) and isinstance(rest.op, ast.And)
                                                                                   else [copy.deepcopy(rest)])), tst)
            new_if = ast.copy_location(ast.If(test=tst, body=copy.deepcopy(tb) or [ast.copy_location(ast.Pass(), iff)], orelse=copy.deepcopy(fb)), stmts[i])
            ast.fix_missing_locations(new_if)
            stmts[i:i + 1] = [new_if]
    for site in [x for x in sites if len(x) == 3]:
        stmts, i, _ = site
        taken = branch_for(False)      # falling off the end returns None: falsy
        stmts[i:i + 1] = copy.deepcopy(taken)
    blk.epilogue = []
    blk.body = _truncate_dead(blk.body)


def _thread_guarded_result(blk, following=None):
    """An inlined helper that hands back an early result under the very test its caller applies to the result,

        <helper>  v = f(); if T(v): <ret> = v; jump          v = f()
                  <ret> = g(); jump                    ->    if T(v): x = v; B
        <caller>  x = <ret>                                  <ret> = g(); jump
                  if T(x): B        (B leaves)               x = <ret>; if T(x): B

    (T a comparison of the value with constants / constant paths): on the early path the caller's test is the one just taken, so its branch B
    follows directly.  What is left has a single, final jump and flattens into the original sequence."""
    ep = list(blk.epilogue) + ([following] if following is not None and len(blk.epilogue) == 1 else [])
    if len(ep) < 2 or not (isinstance(ep[0], ast.Assign) and len(ep[0].targets) == 1 and isinstance(ep[0].targets[0], ast.Name)
                           and isinstance(ep[0].value, ast.Name) and ep[0].value.id == blk.ret):
        return
    x = ep[0].targets[0].id
    iff = ep[1]
    if not (isinstance(iff, ast.If) and not iff.orelse and isinstance(iff.test, ast.Compare) and len(iff.test.ops) == 1 and _ends_flow(iff.body)
            and isinstance(iff.test.left, ast.Name) and iff.test.left.id == x
            and (isinstance(iff.test.comparators[0], ast.Constant) or _stable_path(iff.test.comparators[0]))):
        return
    if any(isinstance(n, ast.Name) and n.id == blk.ret for s_ in ep[1:] for n in ast.walk(s_)):
        return

    def same_test(t, v):
        return isinstance(t, ast.Compare) and len(t.ops) == 1 and type(t.ops[0]) is type(iff.test.ops[0]) and isinstance(t.left, ast.Name) and t.left.id == v \
            and ast.dump(t.comparators[0]) == ast.dump(iff.test.comparators[0])

    def go(stmts):
        for s_ in stmts:
            if isinstance(s_, InlineBlock):
                continue
            if isinstance(s_, ast.If) and not s_.orelse and len(s_.body) == 2 and isinstance(s_.body[1], InlineJump) and getattr(s_.body[1], "ret", None) == blk.ret \
                    and isinstance(s_.body[0], ast.Assign) and len(s_.body[0].targets) == 1 and isinstance(s_.body[0].targets[0], ast.Name) \
                    and s_.body[0].targets[0].id == blk.ret and isinstance(s_.body[0].value, ast.Name) and same_test(s_.test, s_.body[0].value.id):
                a_ = ast.copy_location(ast.Assign(targets=[ast.Name(id=x, ctx=ast.Store())], value=s_.body[0].value, type_comment=None), s_.body[0])
                ast.fix_missing_locations(a_)
                s_.body = [a_] + copy.deepcopy(iff.body)
                continue
            for f in ("body", "orelse", "finalbody"):
                if isinstance(getattr(s_, f, None), list) and not isinstance(s_, (ast.FunctionDef, ast.AsyncFunctionDef, ast.ClassDef)):
                    go(getattr(s_, f))
            for h in getattr(s_, "handlers", []) or []:
                go(h.body)
    go(blk.body)


def _truncate_dead(stmts):
    """statements after one that always leaves (return / raise / break / continue / jump) are dropped, recursively"""
    out = []
    for st in stmts:
        if not isinstance(st, (ast.FunctionDef, ast.AsyncFunctionDef, ast.ClassDef)):
            for f in ("body", "orelse", "finalbody"):
                if isinstance(getattr(st, f, None), list):
                    new = _truncate_dead(getattr(st, f))
                    setattr(st, f, new if (new or f != "body") else [ast.copy_location(ast.Pass(), st)])
            for h in getattr(st, "handlers", []) or []:
                h.body = _truncate_dead(h.body) or [ast.copy_location(ast.Pass(), h)]
            if isinstance(st, InlineBlock):
                st.epilogue = _truncate_dead(st.epilogue)
        out.append(st)
        if isinstance(st, (ast.Return, ast.Raise, ast.Break, ast.Continue, InlineJump)):
            break
    return out


def _jumps_to_returns(stmts, ret, probe=False, as_raise=False):
    """every own `<ret> = E; InlineJump` pair of the block -> `return E`; with probe=True only tells whether all own jumps have that shape
    and <ret> is not read or written anywhere else in the block"""
    ok = True
    i = 0
    while i < len(stmts):
        st = stmts[i]
        if isinstance(st, InlineJump):
            if getattr(st, "ret", None) == ret:
                return False if probe else ok     # a jump without its assignment right before it
            i += 1
            continue
        nxt = stmts[i + 1] if i + 1 < len(stmts) else None
        if isinstance(st, ast.Assign) and len(st.targets) == 1 and isinstance(st.targets[0], ast.Name) and st.targets[0].id == ret:
            if isinstance(nxt, InlineJump) and getattr(nxt, "ret", None) == ret:
                if not probe:
                    r = ast.copy_location(ast.Raise(exc=st.value, cause=None) if as_raise else ast.Return(value=st.value), st)
                    stmts[i:i + 2] = [r]
                    i += 1
                else:
                    i += 2
                continue
            return False if probe else ok
        subs = []
        if isinstance(st, InlineBlock):
            subs = [st.prologue, st.body, st.epilogue]
        else:
            subs = [getattr(st, f) for f in ("body", "orelse", "finalbody") if isinstance(getattr(st, f, None), list)
                    and not isinstance(st, (ast.FunctionDef, ast.AsyncFunctionDef, ast.ClassDef, ast.Lambda))]
            subs += [h.body for h in getattr(st, "handlers", []) or []]
        if subs:
            for sub in subs:
                if not _jumps_to_returns(sub, ret, probe, as_raise):
                    return False
        elif probe and any(isinstance(x, ast.Name) and x.id == ret for x in ast.walk(st)):
            return False
        if probe and subs:
            heads = [getattr(st, f, None) for f in ("test", "iter", "target")] + [getattr(w, "context_expr", None) for w in getattr(st, "items", []) or []]
            if any(isinstance(x, ast.Name) and x.id == ret for h_ in heads if h_ is not None for x in ast.walk(h_)):
                return False
        i += 1
    return True


def _flatten_blocks(stmts):
    """An inlined helper whose only return is its last statement is a plain statement sequence: prologue; body; epilogue, and when the
    statement that received the result is `x = <result>` / `return <result>` the returned expression takes the place of the temporary."""
    out = []
    for i_st, st in enumerate(stmts):
        if isinstance(st, InlineBlock):
            st.prologue = _flatten_blocks(st.prologue)
            st.body = _flatten_blocks(st.body)
            st.epilogue = _flatten_blocks(st.epilogue)
            _thread_boolean_result(st)
            _thread_guarded_result(st, stmts[i_st + 1] if i_st + 1 < len(stmts) else None)
            # `if C: <leaves> else: B` at the end of the helper body is `if C: <leaves>` followed by B (the form before return sinking),
            # which brings a final `<ret> = E; jump` back to the tail
            while st.body and isinstance(st.body[-1], ast.If) and st.body[-1].orelse and _ends_flow(st.body[-1].body) \
                    and _own_jumps(st.body[-1].body) == 0 and _own_jumps(st.body[-1].orelse) >= 1:
                iff_ = st.body[-1]
                tail_ = iff_.orelse
                iff_.orelse = []
                st.body = st.body + tail_
            nj = _own_jumps(st.body)
            body = list(st.body)
            tail_jump = bool(body) and isinstance(body[-1], InlineJump)
            if nj == 0 or (nj == 1 and tail_jump):
                if tail_jump:
                    body = body[:-1]
                ep = list(st.epilogue)
                last = body[-1] if body else None
                is_ret = isinstance(last, ast.Assign) and len(last.targets) == 1 and isinstance(last.targets[0], ast.Name) and last.targets[0].id == st.ret
                if is_ret:
                    uses = [n for e in ep for n in ast.walk(e) if isinstance(n, ast.Name) and n.id == st.ret]
                    if not ep:
                        body = body[:-1] + ([] if isinstance(last.value, (ast.Constant, ast.Name)) else [ast.copy_location(ast.Expr(value=last.value), last)])
                    elif len(uses) == 1 and isinstance(ep[0], (ast.Return, ast.Assign, ast.AnnAssign, ast.Expr)) and getattr(ep[0], "value", None) is uses[0]:
                        ep[0].value = last.value
                        body = body[:-1]
                out += st.prologue + body + ep
                continue
            # several returns, and the caller returns the result as it is (`return self._helper(x)`): each `<ret> = E; jump` is `return E`
            ep = st.epilogue
            if len(ep) == 1 and isinstance(ep[0], ast.Return) and isinstance(ep[0].value, ast.Name) and ep[0].value.id == st.ret \
                    and _ends_flow(st.body) and _jumps_to_returns(st.body, st.ret, probe=True):
                _jumps_to_returns(st.body, st.ret)
                out += st.prologue + st.body
                continue
            # the same for `raise self._helper(x)`: each `<ret> = E; jump` is `raise E`
            if len(ep) == 1 and isinstance(ep[0], ast.Raise) and ep[0].cause is None and isinstance(ep[0].exc, ast.Name) and ep[0].exc.id == st.ret \
                    and _ends_flow(st.body) and _jumps_to_returns(st.body, st.ret, probe=True):
                _jumps_to_returns(st.body, st.ret, as_raise=True)
                out += st.prologue + st.body
                continue
            out.append(st)
            continue
        for f in ("body", "orelse", "finalbody"):
            if isinstance(getattr(st, f, None), list) and not isinstance(st, (ast.FunctionDef, ast.AsyncFunctionDef, ast.ClassDef, ast.Lambda)):
                setattr(st, f, _flatten_blocks(getattr(st, f)))
        for h in getattr(st, "handlers", []) or []:
            h.body = _flatten_blocks(h.body)
        out.append(st)
    return out


def _drop_dead_defs(fdef, body):
    """nested function definitions whose name is never read any more (every call was inlined) are removed"""
    loads = {n.id for st in body for n in ast.walk(st) if isinstance(n, ast.Name) and isinstance(n.ctx, ast.Load)}

    def clean(stmts):
        out = []
        for st in stmts:
            if isinstance(st, ast.FunctionDef) and st.name not in loads:
                continue
            if isinstance(st, InlineBlock):
                st.prologue, st.body, st.epilogue = clean(st.prologue), clean(st.body), clean(st.epilogue)
            elif not isinstance(st, (ast.FunctionDef, ast.AsyncFunctionDef, ast.ClassDef)):
                for f in ("body", "orelse", "finalbody"):
                    if isinstance(getattr(st, f, None), list):
                        new = clean(getattr(st, f))
                        if f == "body" and not new:
                            new = [ast.copy_location(ast.Pass(), st)]
                        setattr(st, f, new)
                for h in getattr(st, "handlers", []) or []:
                    h.body = clean(h.body) or [ast.copy_location(ast.Pass(), h)]
            out.append(st)
        return out
    body = clean(body)
    # a dropped definition may have held the last call of another one
    for _ in range(4):
        loads2 = {n.id for st in body for n in ast.walk(st) if isinstance(n, ast.Name) and isinstance(n.ctx, ast.Load)}
        if loads2 == loads:
            break
        loads.clear()
        loads.update(loads2)
        body = clean(body)
    return body


# -- N21 / N22: pre-passes on the plain Python AST of one function ---------------------------------------------------------------
def _child_lists(st):
    """(owner, field) of the statement lists directly inside a compound statement (not inside nested definitions)"""
    out = []
    if isinstance(st, (ast.FunctionDef, ast.AsyncFunctionDef, ast.ClassDef)):
        return out
    for f in ("body", "orelse", "finalbody"):
        if isinstance(getattr(st, f, None), list):
            out.append((st, f))
    for h in getattr(st, "handlers", []) or []:
        out.append((h, "body"))
    return out


def _simple_return(st):
    return isinstance(st, ast.Return) and (st.value is None or isinstance(st.value, (ast.Name, ast.Constant)))


def _split_assign(st):
    """N23: `a, b = x, y` -> `a = x; b = y` when no later element reads an earlier target; `a = b = K` (K a constant or a plain name) -> `a = K; b = K`."""
    if len(st.targets) > 1 and isinstance(st.value, (ast.Constant, ast.Name)):
        out = []
        for t in st.targets:
            a = ast.copy_location(ast.Assign(targets=[t], value=copy.deepcopy(st.value), type_comment=None), st)
            ast.fix_missing_locations(a)
            out.append(a)
        return out
    if len(st.targets) == 1 and isinstance(st.targets[0], (ast.Tuple, ast.List)) and isinstance(st.value, (ast.Tuple, ast.List)) \
            and len(st.targets[0].elts) == len(st.value.elts) and len(st.value.elts) >= 2 \
            and not any(isinstance(x, ast.Starred) for x in list(st.targets[0].elts) + list(st.value.elts)) \
            and all(isinstance(t, (ast.Name, ast.Attribute)) for t in st.targets[0].elts):
        tg, vs = st.targets[0].elts, st.value.elts
        for j in range(1, len(vs)):
            earlier = {ast.unparse(t) for t in tg[:j]} | {t.id for t in tg[:j] if isinstance(t, ast.Name)}
            for x in ast.walk(vs[j]):
                if isinstance(x, (ast.Name, ast.Attribute)) and ast.unparse(x) in earlier:
                    return None
            # a call in a later element could read an earlier target through the object: only plain values after the first element
            if any(isinstance(x, ast.Call) for x in ast.walk(vs[j])) and any(isinstance(t, ast.Attribute) for t in tg[:j]):
                return None
        out = []
        for t, v in zip(tg, vs):
            a = ast.copy_location(ast.Assign(targets=[t], value=v, type_comment=None), st)
            ast.fix_missing_locations(a)
            out.append(a)
        return out
    return None


def _resplit_assigns(stmts):
    """N23 again once helper results have been put in place: `a, b = (x, y)` left by an inlined `return x, y`"""
    i = 0
    while i < len(stmts):
        st = stmts[i]
        if isinstance(st, ast.Assign):
            sp = _split_assign(st)
            if sp:
                stmts[i:i + 1] = sp
                i += len(sp)
                continue
        elif isinstance(st, InlineBlock):
            for f in ("prologue", "body", "epilogue"):
                _resplit_assigns(getattr(st, f))
        else:
            for owner, f in _child_lists(st):
                _resplit_assigns(getattr(owner, f))
        i += 1


def _some_branch_leaves(c):
    """some branch of the if / elif chain ends in return / raise / continue / break"""
    for br in (c.body, c.orelse):
        if not br:
            continue
        if _ends_flow(br):
            return True
        if isinstance(br[-1], ast.If) and _some_branch_leaves(br[-1]):
            return True
    return False


def _sink_returns(stmts):
    """N22: `<if / try> ; return v` -> the return is copied to the end of every branch that falls through (v a plain name or constant, so the
    copy cannot raise and evaluates nothing twice); `x = E; return x` -> `return E`.  Single-exit code and early-return code get one form."""
    for st in stmts:
        for owner, f in _child_lists(st):
            setattr(owner, f, _sink_returns(getattr(owner, f)))
    # a short straight-line tail that ends the function (`log(..); return (True, x)`) after an `if` is copied into the branches that fall through:
    # `if a: x = 1 elif b: x = 2 else: continue; log(); return (True, x)` becomes one return per branch
    for i in range(len(stmts) - 2, -1, -1):
        c = stmts[i]
        tail = stmts[i + 1:]
        if isinstance(c, ast.If) and 2 <= len(tail) <= 4 and isinstance(tail[-1], (ast.Return, ast.Raise)) \
                and all(isinstance(t, (ast.Expr, ast.Assign, ast.AugAssign, ast.Return, ast.Raise)) for t in tail) \
                and not any(isinstance(x, (ast.Lambda, ast.Yield, ast.YieldFrom, ast.Await)) for t in tail for x in ast.walk(t)) \
                and _some_branch_leaves(c):
            for f in ("body", "orelse"):
                br = getattr(c, f)
                if not _ends_flow(br):
                    setattr(c, f, _sink_returns(br + copy.deepcopy(tail)))
            stmts = stmts[:i + 1]
            break
    changed = True
    while changed:
        changed = False
        if len(stmts) >= 2 and _simple_return(stmts[-1]):
            c, r = stmts[-2], stmts[-1]
            if isinstance(c, ast.If):
                for f in ("body", "orelse"):
                    br = getattr(c, f)
                    if not _ends_flow(br):
                        setattr(c, f, _sink_returns(br + [copy.deepcopy(r)]))
                stmts = stmts[:-1]
                changed = True
            elif isinstance(c, ast.Try) and not c.finalbody and not any(isinstance(x, (ast.Break, ast.Continue)) for x in ast.walk(c)):
                tgt = "orelse" if c.orelse else "body"
                if not _ends_flow(getattr(c, tgt)):
                    setattr(c, tgt, _sink_returns(getattr(c, tgt) + [copy.deepcopy(r)]))
                for h in c.handlers:
                    if not _ends_flow(h.body):
                        h.body = _sink_returns(h.body + [copy.deepcopy(r)])
                stmts = stmts[:-1]
                changed = True
        if len(stmts) >= 2 and isinstance(stmts[-1], ast.Return) and isinstance(stmts[-1].value, ast.Name) and isinstance(stmts[-2], ast.Assign) \
                and len(stmts[-2].targets) == 1 and isinstance(stmts[-2].targets[0], ast.Name) and stmts[-2].targets[0].id == stmts[-1].value.id:
            stmts = stmts[:-2] + [ast.copy_location(ast.Return(value=stmts[-2].value), stmts[-2])]
            changed = True
        # `x = E; return (K, x)`: x is an element of the returned display and everything before it is a constant, a constant path or a plain name
        elif len(stmts) >= 2 and isinstance(stmts[-1], ast.Return) and isinstance(stmts[-1].value, (ast.Tuple, ast.List)) and isinstance(stmts[-2], ast.Assign) \
                and len(stmts[-2].targets) == 1 and isinstance(stmts[-2].targets[0], ast.Name):
            x_ = stmts[-2].targets[0].id
            elts = stmts[-1].value.elts
            idx = [i_ for i_, e_ in enumerate(elts) if isinstance(e_, ast.Name) and e_.id == x_]
            uses = sum(1 for n_ in ast.walk(stmts[-1].value) if isinstance(n_, ast.Name) and n_.id == x_)
            if len(idx) == 1 and uses == 1 and all(_is_const(e_) or _stable_path(e_) or isinstance(e_, ast.Name) for e_ in elts[:idx[0]]) \
                    and not any(isinstance(n_, ast.Name) and n_.id == x_ for n_ in ast.walk(stmts[-2].value)):
                new_ret = copy.deepcopy(stmts[-1])
                new_ret.value.elts[idx[0]] = stmts[-2].value
                stmts = stmts[:-2] + [new_ret]
                changed = True
    # N24: `if C: [log] return True else: [log] return False` -> `[if C: log else: log]; return C` (C a boolean expression over plain locals and
    # constant paths, so evaluating it a second time gives the same value; the branches hold nothing but expression statements)
    if stmts and isinstance(stmts[-1], ast.If):
        c = stmts[-1]
        if c.body and c.orelse and all(isinstance(b[-1], ast.Return) and isinstance(b[-1].value, ast.Constant) and isinstance(b[-1].value.value, bool)
                                       for b in (c.body, c.orelse)) \
                and c.body[-1].value.value != c.orelse[-1].value.value and _is_boolish(c.test) \
                and all(isinstance(x, ast.Expr) and isinstance(x.value, ast.Call) for b in (c.body, c.orelse) for x in b[:-1]):
            rest_b, rest_o = c.body[:-1], c.orelse[:-1]
            pure = not any(isinstance(x, (ast.Subscript, ast.Call, ast.NamedExpr, ast.Await, ast.Yield, ast.Attribute)) and not (isinstance(x, ast.Attribute) and _stable_path(x))
                           for x in ast.walk(c.test))
            if not rest_b and not rest_o or pure:
                val = copy.deepcopy(c.test) if c.body[-1].value.value else (_negate(copy.deepcopy(c.test)) or ast.UnaryOp(op=ast.Not(), operand=copy.deepcopy(c.test)))
                ret = ast.copy_location(ast.Return(value=val), c.body[-1])
                ast.fix_missing_locations(ret)
                pre = []
                if rest_b or rest_o:
                    c.body = rest_b or [ast.copy_location(ast.Pass(), c)]
                    c.orelse = rest_o
                    pre = [c]
                stmts = stmts[:-1] + pre + [ret]
            elif all(isinstance(x.value.func, ast.Attribute) and x.value.func.attr in ("debug", "info", "warning", "error", "critical") and "logger" in ast.unparse(x.value.func.value)
                     for b in (rest_b, rest_o) for x in b):
                # the test reads the device / calls something and the branches only log: evaluate it once into a temporary, branch and return on that
                tmp = f"_verdict{getattr(c, 'lineno', 0)}"
                asg = ast.copy_location(ast.Assign(targets=[ast.Name(id=tmp, ctx=ast.Store())], value=c.test, type_comment=None), c)
                val = ast.Name(id=tmp, ctx=ast.Load()) if c.body[-1].value.value else ast.UnaryOp(op=ast.Not(), operand=ast.Name(id=tmp, ctx=ast.Load()))
                ret = ast.copy_location(ast.Return(value=val), c.body[-1])
                c.test = ast.copy_location(ast.Name(id=tmp, ctx=ast.Load()), c.test)
                c.body = rest_b or [ast.copy_location(ast.Pass(), c)]
                c.orelse = rest_o
                for o_ in (asg, ret, c):
                    ast.fix_missing_locations(o_)
                stmts = stmts[:-1] + [asg, c, ret]
    return stmts


class _CmpCanon(ast.NodeTransformer):
    """N28: `a <= x < b` (x a plain name, constant or constant path: evaluating it twice changes nothing) -> `a <= x and x < b`;
    a comparison with the constant on the left (`0 <= x`) is written with it on the right (`x >= 0`)."""
    _FLIP = {ast.Lt: ast.Gt, ast.LtE: ast.GtE, ast.Gt: ast.Lt, ast.GtE: ast.LtE, ast.Eq: ast.Eq, ast.NotEq: ast.NotEq}

    def __init__(self, hexfuncs=()):
        self.hexfuncs = set(hexfuncs)     # local names of binascii.hexlify / b2a_hex in this module

    def visit_Call(self, node):
        # N37: binascii.hexlify(b) is b.hex().encode() (the same ASCII bytes; b is evaluated once either way)
        self.generic_visit(node)
        f = node.func
        if len(node.args) == 1 and not node.keywords and not isinstance(node.args[0], ast.Starred) and (
                (isinstance(f, ast.Name) and f.id in self.hexfuncs)
                or (isinstance(f, ast.Attribute) and isinstance(f.value, ast.Name) and f.value.id == "binascii" and f.attr in ("hexlify", "b2a_hex") and "binascii" in self.hexfuncs)):
            new = ast.Call(func=ast.Attribute(value=ast.Call(func=ast.Attribute(value=node.args[0], attr="hex", ctx=ast.Load()), args=[], keywords=[]),
                                              attr="encode", ctx=ast.Load()), args=[], keywords=[])
            ast.copy_location(new, node)
            ast.fix_missing_locations(new)
            return new
        # N38: struct.pack of unsigned bytes only ("B", "BB", "<3B", ...) is bytes([...]) of the same values
        if isinstance(f, ast.Attribute) and isinstance(f.value, ast.Name) and f.value.id == "struct" and f.attr == "pack" and not node.keywords and len(node.args) >= 2 \
                and isinstance(node.args[0], ast.Constant) and isinstance(node.args[0].value, str) and not any(isinstance(a, ast.Starred) for a in node.args):
            m = re.fullmatch(r"[@=<>!]?((?:\d*B)+)", node.args[0].value)
            if m:
                n = sum(int(c or 1) for c in re.findall(r"(\d*)B", m.group(1)))
                if n == len(node.args) - 1:
                    new = ast.Call(func=ast.Name(id="bytes", ctx=ast.Load()), args=[ast.List(elts=list(node.args[1:]), ctx=ast.Load())], keywords=[])
                    ast.copy_location(new, node)
                    ast.fix_missing_locations(new)
                    return new
        return node

    def _one(self, node):
        l, op, r = node.left, node.ops[0], node.comparators[0]
        if isinstance(l, ast.Constant) and not isinstance(r, ast.Constant) and type(op) in self._FLIP and not isinstance(l.value, (str, bytes)):
            return ast.copy_location(ast.Compare(left=r, ops=[self._FLIP[type(op)]()], comparators=[l]), node)
        return node

    def visit_Compare(self, node):
        self.generic_visit(node)
        if len(node.ops) > 1:
            mids = node.comparators[:-1]
            if all(isinstance(m, (ast.Name, ast.Constant)) or _stable_path(m)
                   or (isinstance(m, ast.Subscript) and isinstance(m.value, ast.Name) and isinstance(m.slice, ast.Constant)) for m in mids):
                operands = [node.left] + list(node.comparators)
                parts = []
                for i, op in enumerate(node.ops):
                    c = ast.copy_location(ast.Compare(left=copy.deepcopy(operands[i]), ops=[op], comparators=[copy.deepcopy(operands[i + 1])]), node)
                    parts.append(self._one(c))
                new = ast.copy_location(ast.BoolOp(op=ast.And(), values=parts), node)
                ast.fix_missing_locations(new)
                return new
            return node
        new = self._one(node)
        ast.fix_missing_locations(new)
        return new

    def visit_BoolOp(self, node):
        self.generic_visit(node)
        # `a and (b and c)` left by the split above -> `a and b and c`
        vals = []
        for v in node.values:
            if isinstance(v, ast.BoolOp) and type(v.op) is type(node.op):
                vals += v.values
            else:
                vals.append(v)
        node.values = vals
        return node


def _dict_display_loops(fdef):
    """N31: a local bound once to a dict display with constant keys and plain values (names / constants / attribute paths that are bound at most once),
    never modified and only iterated, indexed with a constant or tested for membership, is its display: `for k, v in D.items()` iterates the
    (key, value) pairs, `for k in D` the keys, `D["k"]` is the value."""
    stores, loads = {}, {}
    parent = {}
    for n in ast.walk(fdef):
        for c in ast.iter_child_nodes(n):
            parent[id(c)] = n
        if isinstance(n, ast.Name):
            (stores if isinstance(n.ctx, (ast.Store, ast.Del)) else loads).setdefault(n.id, []).append(n)
        elif isinstance(n, ast.arg):
            stores.setdefault(n.arg, []).append(n)
    cands = {}
    for st in ast.walk(fdef):
        if isinstance(st, ast.Assign) and len(st.targets) == 1 and isinstance(st.targets[0], ast.Name) and isinstance(st.value, ast.Dict) and st.value.keys \
                and all(isinstance(k, ast.Constant) and isinstance(k.value, (str, int)) for k in st.value.keys) \
                and len({k.value for k in st.value.keys}) == len(st.value.keys) \
                and all(_side_effect_free(v) or _is_const(v) for v in st.value.values):
            nm = st.targets[0].id
            if len(stores.get(nm, [])) != 1:
                continue
            vnames = {x.id for v in st.value.values for x in ast.walk(v) if isinstance(x, ast.Name)}
            if any(len(stores.get(x, [])) > 1 for x in vnames):
                continue
            ok = True
            for u in loads.get(nm, []):
                p = parent.get(id(u))
                if isinstance(p, (ast.For, ast.comprehension)) and p.iter is u:
                    continue
                if isinstance(p, ast.Attribute) and p.value is u and p.attr in ("items", "keys", "values"):
                    pc = parent.get(id(p))
                    pf = parent.get(id(pc))
                    if isinstance(pc, ast.Call) and pc.func is p and not pc.args and not pc.keywords and isinstance(pf, (ast.For, ast.comprehension)) and pf.iter is pc:
                        continue
                if isinstance(p, ast.Subscript) and p.value is u and isinstance(p.ctx, ast.Load) and isinstance(p.slice, ast.Constant) \
                        and p.slice.value in [k.value for k in st.value.keys]:
                    continue
                if isinstance(p, ast.Compare) and len(p.ops) == 1 and isinstance(p.ops[0], (ast.In, ast.NotIn)) and p.comparators[0] is u:
                    continue
                ok = False
                break
            if ok:
                cands[nm] = st.value
    if not cands:
        return

    class T(ast.NodeTransformer):
        def visit_comprehension(self, node):
            return self.visit_For(node)

        def visit_For(self, node):
            self.generic_visit(node)
            it = node.iter
            nm, kind = None, None
            if isinstance(it, ast.Name) and it.id in cands:
                nm, kind = it.id, "keys"
            elif isinstance(it, ast.Call) and isinstance(it.func, ast.Attribute) and isinstance(it.func.value, ast.Name) and it.func.value.id in cands \
                    and it.func.attr in ("items", "keys", "values") and not it.args:
                nm, kind = it.func.value.id, it.func.attr
            if nm is None:
                return node
            d = cands[nm]
            if kind == "keys":
                elts = [copy.deepcopy(k) for k in d.keys]
            elif kind == "values":
                elts = [copy.deepcopy(v) for v in d.values]
            else:
                elts = [ast.Tuple(elts=[copy.deepcopy(k), copy.deepcopy(v)], ctx=ast.Load()) for k, v in zip(d.keys, d.values)]
            node.iter = ast.copy_location(ast.List(elts=elts, ctx=ast.Load()), it)
            ast.fix_missing_locations(node.iter)
            return node

        def visit_Subscript(self, node):
            self.generic_visit(node)
            if isinstance(node.value, ast.Name) and node.value.id in cands and isinstance(node.ctx, ast.Load) and isinstance(node.slice, ast.Constant):
                d = cands[node.value.id]
                for k, v in zip(d.keys, d.values):
                    if k.value == node.slice.value and type(k.value) is type(node.slice.value):
                        return ast.copy_location(copy.deepcopy(v), node)
            return node
    T().visit(fdef)


def _merge_dict_stores(fdef):
    """N26: `d = {k1: v1, ..}; d[K] = V` (K a new constant key, V not reading d, the store right after the display) -> `d = {k1: v1, .., K: V}`:
    a reply built in two steps and one written as a single display get one form; the evaluation order is unchanged."""
    def go(stmts):
        i = 0
        while i < len(stmts):
            st = stmts[i]
            for owner, f in _child_lists(st):
                go(getattr(owner, f))
            nxt = stmts[i + 1] if i + 1 < len(stmts) else None
            if isinstance(st, ast.Assign) and len(st.targets) == 1 and isinstance(st.targets[0], ast.Name) and isinstance(st.value, ast.Dict) \
                    and all(isinstance(k, ast.Constant) for k in st.value.keys) \
                    and isinstance(nxt, ast.Assign) and len(nxt.targets) == 1 and isinstance(nxt.targets[0], ast.Subscript) \
                    and isinstance(nxt.targets[0].value, ast.Name) and nxt.targets[0].value.id == st.targets[0].id \
                    and isinstance(nxt.targets[0].slice, ast.Constant) \
                    and nxt.targets[0].slice.value not in [k.value for k in st.value.keys] \
                    and not any(isinstance(x, ast.Name) and x.id == st.targets[0].id for x in ast.walk(nxt.value)):
                st.value.keys.append(nxt.targets[0].slice)
                st.value.values.append(nxt.value)
                del stmts[i + 1]
                continue
            i += 1
    go(fdef.body)


def _scalar_dicts(fdef, log=None):
    """N41: a local dict that is only a bundle of named slots,

        D = {}                         (removed)
        D[K1] = E1; D[K2] = E2         D__K1 = E1; D__K2 = E2         K constant or constant path (Op.GET)
        ... D[K1] ... D[K2] ...        ... D__K1 ... D__K2 ...

    when D is bound once, to an empty display, every other occurrence of D is `D[K]`, and each slot that is read is stored by a statement of the
    block that holds `D = {}`, after it and before the statements that read it (so no read can come before its store)."""
    params = {a.arg for a in ast.walk(fdef.args) if isinstance(a, ast.arg)}
    nested = set()
    for n in ast.walk(fdef):
        if n is not fdef and isinstance(n, (ast.FunctionDef, ast.AsyncFunctionDef, ast.Lambda, ast.ClassDef, ast.ListComp, ast.SetComp, ast.DictComp, ast.GeneratorExp)):
            nested |= {x.id for x in ast.walk(n) if isinstance(x, ast.Name)}

    def blocks(ss):
        yield ss
        for st in ss:
            if isinstance(st, (ast.FunctionDef, ast.AsyncFunctionDef, ast.ClassDef)):
                continue
            for owner, f in ([(st, "prologue"), (st, "body"), (st, "epilogue")] if isinstance(st, InlineBlock) else _child_lists(st)):
                yield from blocks(getattr(owner, f))

    def keytext(k):
        if isinstance(k, ast.Constant) and isinstance(k.value, (str, int)) and not isinstance(k.value, bool):
            return re.sub(r"\W", "_", str(k.value))
        if _stable_path(k):
            return re.sub(r"\W", "_", ast.unparse(k))
        return None
    for blk in list(blocks(fdef.body)):
        for i, st in enumerate(blk):
            if not (isinstance(st, ast.Assign) and len(st.targets) == 1 and isinstance(st.targets[0], ast.Name) and isinstance(st.value, ast.Dict) and not st.value.keys):
                continue
            D = st.targets[0].id
            if D in params or D in nested:
                continue
            occ = [n for n in ast.walk(fdef) if isinstance(n, ast.Name) and n.id == D]
            subs = {id(n.value): n for n in ast.walk(fdef) if isinstance(n, ast.Subscript) and isinstance(n.value, ast.Name) and n.value.id == D}
            if any(id(n) not in subs for n in occ if n is not st.targets[0]):
                continue
            if any(keytext(sb.slice) is None or isinstance(sb.ctx, ast.Del) for sb in subs.values()):
                continue
            # where each slot is stored (top level of blk, after the display) and read
            augs = {id(x.target) for x in ast.walk(fdef) if isinstance(x, ast.AugAssign)}
            first_store = {}
            ok = True
            for j, s2 in enumerate(blk):
                tops = [t for t in (s2.targets if isinstance(s2, ast.Assign) else []) if isinstance(t, ast.Subscript) and id(t.value) in subs]
                for n in ast.walk(s2):
                    if isinstance(n, ast.Subscript) and id(n.value) in subs:
                        kt = keytext(n.slice)
                        if j <= i:
                            ok = False
                        elif (isinstance(n.ctx, ast.Load) or id(n) in augs) and not (kt in first_store and first_store[kt] < j):
                            ok = False
                for t in tops:
                    first_store.setdefault(keytext(t.slice), j)
            inside = {id(n) for s2 in blk for n in ast.walk(s2)}
            if not ok or any(id(sb) not in inside for sb in subs.values()):
                continue
            names = {keytext(sb.slice): f"{D}__{keytext(sb.slice)}" for sb in subs.values()}
            if len(set(names.values())) != len(names) or len({ast.unparse(sb.slice) for sb in subs.values()}) != len(names):
                continue

            class _Slots(ast.NodeTransformer):
                def visit_Subscript(s_, node):
                    if id(node.value) in subs:
                        return ast.copy_location(ast.Name(id=names[keytext(node.slice)], ctx=type(node.ctx)()), node)
                    s_.generic_visit(node)
                    return node
            blk[i] = ast.copy_location(ast.Pass(), st)
            _Slots().visit(fdef)
            if len(blk) > 1:
                del blk[i]
            if log is not None:
                log.append((D, sorted(names.values()), getattr(st, "lineno", 0)))
            return _scalar_dicts(fdef, log)


def _kwargs_dicts(fdef, log=None):
    """N43: `D = {"a": E1, "b": E2}` ... `f(x, **D)`, D bound once and used only as `**D`  ->  `D__a = E1; D__b = E2` ... `f(x, a=D__a, b=D__b)`
    (the values are still evaluated where the display stood, in its order)."""
    params = {a.arg for a in ast.walk(fdef.args) if isinstance(a, ast.arg)}

    def blocks(ss):
        yield ss
        for st in ss:
            if isinstance(st, (ast.FunctionDef, ast.AsyncFunctionDef, ast.ClassDef)):
                continue
            for owner, f in ([(st, "prologue"), (st, "body"), (st, "epilogue")] if isinstance(st, InlineBlock) else _child_lists(st)):
                yield from blocks(getattr(owner, f))
    for blk in list(blocks(fdef.body)):
        for i, st in enumerate(blk):
            if not (isinstance(st, ast.Assign) and len(st.targets) == 1 and isinstance(st.targets[0], ast.Name) and isinstance(st.value, ast.Dict) and st.value.keys
                    and all(isinstance(k, ast.Constant) and isinstance(k.value, str) and k.value.isidentifier() for k in st.value.keys)
                    and len({k.value for k in st.value.keys}) == len(st.value.keys)):
                continue
            D = st.targets[0].id
            if D in params:
                continue
            occ = [n for n in ast.walk(fdef) if isinstance(n, ast.Name) and n.id == D and n is not st.targets[0]]
            stars = {id(k.value): c for c in ast.walk(fdef) if isinstance(c, ast.Call) for k in c.keywords if k.arg is None and isinstance(k.value, ast.Name) and k.value.id == D}
            if not occ or any(id(n) not in stars for n in occ):
                continue
            if any(isinstance(n, (ast.FunctionDef, ast.AsyncFunctionDef, ast.Lambda)) and n is not fdef and any(isinstance(x, ast.Name) and x.id == D for x in ast.walk(n))
                   for n in ast.walk(fdef)):
                continue
            calls = list({id(c): c for c in stars.values()}.values())
            if any(sum(1 for k in c.keywords if k.arg is None) != 1 or {k.arg for k in c.keywords} & {k.value for k in st.value.keys} for c in calls):
                continue
            new = []
            for k, v in zip(st.value.keys, st.value.values):
                a_ = ast.copy_location(ast.Assign(targets=[ast.Name(id=f"{D}__{k.value}", ctx=ast.Store())], value=v, type_comment=None), st)
                ast.fix_missing_locations(a_)
                new.append(a_)
            blk[i:i + 1] = new
            for c in calls:
                kws = []
                for k in c.keywords:
                    if k.arg is None:
                        for kk in st.value.keys:
                            kw = ast.keyword(arg=kk.value, value=ast.Name(id=f"{D}__{kk.value}", ctx=ast.Load()))
                            ast.copy_location(kw.value, c)
                            kws.append(kw)
                    else:
                        kws.append(k)
                c.keywords = kws
                ast.fix_missing_locations(c)
            if log is not None:
                log.append((D, len(calls), getattr(st, "lineno", 0)))
            return _kwargs_dicts(fdef, log)


def _eliminate_aliases(fdef, log=None, member_ok=None, modroots=()):
    """N27: `x = y` between two plain locals, where this is the only binding of x, every binding of y comes before it and x is not read
    before it: y is x under another name (a hoisted temporary, the result variable of an inlined helper).  y is renamed to x and the
    copy disappears; nothing is evaluated differently."""
    params = {a.arg for a in ast.walk(fdef.args) if isinstance(a, ast.arg)}
    changed = True
    rounds = 0
    while changed and rounds < 20:
        changed = False
        rounds += 1
        stmts_order = []          # simple statements / compound heads in program order
        stores, loads, banned = {}, {}, set()

        def head_nodes(st):
            if isinstance(st, (ast.If, ast.While)):
                return [st.test]
            if isinstance(st, (ast.For, ast.AsyncFor)):
                return [st.target, st.iter]
            if isinstance(st, (ast.With, ast.AsyncWith)):
                return [x for it in st.items for x in (it.context_expr, it.optional_vars) if x is not None]
            if isinstance(st, ast.Match):
                return [st.subject]
            return []

        def note(expr, idx):
            for n in ast.walk(expr):
                if isinstance(n, ast.Name):
                    (stores if isinstance(n.ctx, (ast.Store, ast.Del)) else loads).setdefault(n.id, []).append(idx)
                    if isinstance(n.ctx, ast.Del):
                        banned.add(n.id)
                elif isinstance(n, ast.Lambda):
                    for m in ast.walk(n.args):
                        if isinstance(m, ast.arg):
                            banned.add(m.arg)
                elif isinstance(n, (ast.ListComp, ast.SetComp, ast.DictComp, ast.GeneratorExp)):
                    for g_ in n.generators:
                        for m in ast.walk(g_.target):
                            if isinstance(m, ast.Name):
                                banned.add(m.id)
                elif isinstance(n, ast.NamedExpr) and isinstance(n.target, ast.Name):
                    banned.add(n.target.id)

        def go(ss):
            for st in ss:
                idx = len(stmts_order)
                stmts_order.append(st)
                if isinstance(st, (ast.FunctionDef, ast.AsyncFunctionDef, ast.ClassDef)):
                    for m in ast.walk(st):
                        if isinstance(m, ast.Name):
                            banned.add(m.id)
                        elif isinstance(m, ast.arg):
                            banned.add(m.arg)
                    banned.add(st.name)
                    continue
                if isinstance(st, (ast.Global, ast.Nonlocal)):
                    banned.update(st.names)
                    continue
                subs = [(st, "prologue"), (st, "body"), (st, "epilogue")] if isinstance(st, InlineBlock) else _child_lists(st)
                if subs:
                    for h in head_nodes(st):
                        note(h, idx)
                    for hd in getattr(st, "handlers", []) or []:
                        if hd.name:
                            stores.setdefault(hd.name, []).append(idx)
                            banned.add(hd.name)
                        if hd.type is not None:
                            note(hd.type, idx)
                    if isinstance(st, ast.Match):
                        for m in ast.walk(st):
                            if isinstance(m, ast.Name):
                                banned.add(m.id)
                    for owner, f in subs:
                        go(getattr(owner, f))
                else:
                    note(st, idx)
        go(fdef.body)
        for idx, st in enumerate(stmts_order):
            member = isinstance(st, ast.Assign) and isinstance(st.value, ast.Attribute) and isinstance(st.value.value, ast.Name) and st.value.value.id == "self" \
                and member_ok is not None and member_ok(st.value.attr)
            modpath = False
            if isinstance(st, ast.Assign) and isinstance(st.value, ast.Attribute):
                # `f = pkg.mod.Class.method`: a dotted path rooted at an imported module names the same object wherever it is written
                r_ = st.value
                while isinstance(r_, ast.Attribute):
                    r_ = r_.value
                modpath = isinstance(r_, ast.Name) and r_.id in modroots
            if isinstance(st, ast.Assign) and len(st.targets) == 1 and isinstance(st.targets[0], ast.Name) and (_stable_path(st.value) or member or modpath) \
                    and (any(st is s_ for s_ in fdef.body) or (modpath and any(isinstance(s_, ast.Try) and any(st is b_ for b_ in s_.body) for s_ in fdef.body))):
                # N36: `x = self.CMD.UI_ATT` at the top level of the function, the only binding of x, x not read before it: x is a short name for
                # the class-level constant (constant paths are what N2 already substitutes for loop variables); the path takes its place.
                # The same for `x = self._member` when the class binds that member in __init__ only (and this is not __init__): x and the member
                # are the same object throughout
                x = st.targets[0].id
                root = st.value
                while isinstance(root, ast.Attribute):
                    root = root.value
                if x not in params and x not in banned and stores.get(x) == [idx] and not any(i <= idx for i in loads.get(x, [])) \
                        and root.id != x and (root.id in params or root.id not in stores):
                    fdef.body[:] = [s_ for s_ in fdef.body if s_ is not st] or [ast.copy_location(ast.Pass(), st)]
                    for s_ in fdef.body:
                        if isinstance(s_, ast.Try) and any(st is b_ for b_ in s_.body):
                            s_.body[:] = [b_ for b_ in s_.body if b_ is not st] or [ast.copy_location(ast.Pass(), st)]
                    _ConstSub({x: st.value}).visit(fdef)
                    if log is not None:
                        log.append((ast.unparse(st.value), x, getattr(st, "lineno", 0)))
                    changed = True
                    break
            if not (isinstance(st, ast.Assign) and len(st.targets) == 1 and isinstance(st.targets[0], ast.Name) and isinstance(st.value, ast.Name)):
                continue
            x, y = st.targets[0].id, st.value.id
            if x == y or x in params or y in params or x in banned or y in banned or y not in stores:
                continue
            if stores.get(x) != [idx] or any(i >= idx for i in stores[y]) or any(i <= idx for i in loads.get(x, [])):
                continue
            # the copy must not be conditional with respect to the bindings of y... (a binding of y on a path that skips the copy leaves
            # x unbound there in the original too; reading it would be an error, so nothing observable differs)
            _Rename({y: x}).visit(fdef)
            # the copy is now `x = x`
            def drop(ss):
                for i_, s_ in enumerate(ss):
                    if s_ is st:
                        del ss[i_]
                        if not ss:
                            ss.append(ast.copy_location(ast.Pass(), st))
                        return True
                    for owner, f in ([(s_, "prologue"), (s_, "body"), (s_, "epilogue")] if isinstance(s_, InlineBlock) else _child_lists(s_)):
                        if drop(getattr(owner, f)):
                            return True
                return False
            drop(fdef.body)
            if log is not None:
                log.append((y, x, getattr(st, "lineno", 0)))
            changed = True
            break


def _is_boolish(e):
    if isinstance(e, ast.Compare):
        return True
    if isinstance(e, ast.UnaryOp) and isinstance(e.op, ast.Not):
        return True
    if isinstance(e, ast.BoolOp):
        return all(_is_boolish(v) for v in e.values)
    if isinstance(e, ast.Call) and isinstance(e.func, ast.Name) and e.func.id in ("isinstance", "any", "all", "bool", "callable", "hasattr", "issubclass"):
        return True
    return False


def _is_attr_path(e):
    """obj.a.b: a plain attribute read (`pending = self._flag; if pending:` is `if self._flag:`)"""
    n = 0
    while isinstance(e, ast.Attribute):
        e = e.value
        n += 1
    return n > 0 and isinstance(e, ast.Name)


def _propagate_bools(fdef):
    """N21: a local bound once to a boolean expression (`in_range = type(i) == int and 0 <= i < N`) and then only tested stands for that
    expression: its uses are replaced by the expression and the assignment is dropped.  Safe when nothing the expression reads can change
    between the assignment and the uses: operands are plain locals that are not re-bound afterwards, or - when the expression reads attributes,
    subscripts or calls something - the only use is the test of the statement that immediately follows."""
    stores, loads = {}, {}
    for n in ast.walk(fdef):
        if isinstance(n, ast.Name):
            (stores if isinstance(n.ctx, (ast.Store, ast.Del)) else loads).setdefault(n.id, []).append(n)
        elif isinstance(n, ast.arg):
            stores.setdefault(n.arg, []).append(n)
        elif isinstance(n, (ast.Global, ast.Nonlocal)):
            for nm in n.names:
                stores.setdefault(nm, []).extend([n, n])

    def try_list(stmts):
        i = 0
        while i < len(stmts):
            st = stmts[i]
            for owner, f in _child_lists(st):
                try_list(getattr(owner, f))
            if isinstance(st, ast.Assign) and len(st.targets) == 1 and isinstance(st.targets[0], ast.Name) and (_is_boolish(st.value) or isinstance(st.value, (ast.Attribute, ast.Subscript, ast.BoolOp))):
                b = st.targets[0].id
                uses = loads.get(b, [])
                rest = stmts[i + 1:]
                inside = {id(x) for r_ in rest for x in ast.walk(r_)}
                if len(stores.get(b, [])) == 1 and uses and all(id(u) in inside for u in uses):
                    operands = {x.id for x in ast.walk(st.value) if isinstance(x, ast.Name)}
                    # constant-style attribute paths (obj.MODE.SIGNER, self.ERROR_CODE_OK) read the same value wherever they are evaluated
                    constlike = set()
                    for x in ast.walk(st.value):
                        if isinstance(x, ast.Attribute) and re.fullmatch(r"_?[A-Z][A-Z0-9_]*", x.attr):
                            y = x
                            while isinstance(y, ast.Attribute):
                                constlike.add(id(y))
                                y = y.value
                            if not isinstance(y, ast.Name):
                                constlike.clear()
                                break
                    # type(v) / isinstance(v, T) of a local that is not re-bound give the same answer wherever they are evaluated
                    pure_calls = {id(x) for x in ast.walk(st.value) if isinstance(x, ast.Call) and isinstance(x.func, ast.Name) and x.func.id in ("type", "isinstance")
                                  and not x.keywords and x.args and isinstance(x.args[0], ast.Name)
                                  and all(isinstance(a_, ast.Name) or (isinstance(a_, ast.Tuple) and all(isinstance(e_, ast.Name) for e_ in a_.elts)) for a_ in x.args[1:])}
                    impure = any((isinstance(x, (ast.Subscript, ast.NamedExpr, ast.Await, ast.Yield)) or (isinstance(x, ast.Call) and id(x) not in pure_calls))
                                 or (isinstance(x, ast.Attribute) and id(x) not in constlike)
                                 for x in ast.walk(st.value))
                    later_stores = {x.id for r_ in rest for x in ast.walk(r_) if isinstance(x, ast.Name) and isinstance(x.ctx, (ast.Store, ast.Del))}
                    in_loop_risk = any(isinstance(x, (ast.For, ast.While)) for r_ in rest for x in ast.walk(r_)) and (operands & later_stores)
                    ok = not (operands & later_stores) and not in_loop_risk
                    if ok and impure:
                        nxt = rest[0] if rest else None
                        head = None
                        if isinstance(nxt, (ast.If, ast.While)):
                            head = nxt.test
                        elif isinstance(nxt, (ast.Return, ast.Expr, ast.Assign)):
                            head = nxt.value
                        elif isinstance(nxt, ast.Raise):
                            head = nxt.exc
                        ok = len(uses) == 1 and head is not None and any(x is uses[0] for x in ast.walk(head)) and not isinstance(nxt, ast.While)
                        if ok:
                            # the use must be the first thing evaluated in that head: b itself, `not b`, or the first operand of a BoolOp
                            h_ = head
                            while True:
                                if h_ is uses[0]:
                                    break
                                if isinstance(h_, ast.UnaryOp) and isinstance(h_.op, ast.Not):
                                    h_ = h_.operand
                                elif isinstance(h_, ast.BoolOp):
                                    h_ = h_.values[0]
                                elif isinstance(h_, ast.Call):
                                    h_ = h_.func        # `f = obj.method; f(x)`: the callee is evaluated before the arguments
                                elif isinstance(h_, (ast.Attribute, ast.Subscript)):
                                    h_ = h_.value
                                elif isinstance(h_, ast.Compare):
                                    h_ = h_.left
                                else:
                                    ok = False
                                    break
                    if ok:
                        class R(ast.NodeTransformer):
                            def visit_Name(s_, node):
                                if isinstance(node.ctx, ast.Load) and node.id == b:
                                    return ast.copy_location(copy.deepcopy(st.value), node)
                                return node
                        for k in range(i + 1, len(stmts)):
                            stmts[k] = R().visit(stmts[k])
                        del stmts[i]
                        loads.pop(b, None)
                        continue
            i += 1
    try_list(fdef.body)


class _Rename(ast.NodeTransformer):
    def __init__(self, m):
        self.m = m

    def visit_Name(self, node):
        if node.id in self.m:
            return ast.copy_location(ast.Name(id=self.m[node.id], ctx=node.ctx), node)
        return node

    def visit_ExceptHandler(self, node):
        if node.name in self.m:
            node.name = self.m[node.name]
        self.generic_visit(node)
        return node

    def visit_Lambda(self, node):
        bound = {x.arg for x in node.args.posonlyargs + node.args.args + node.args.kwonlyargs}
        sub = _Rename({k: v for k, v in self.m.items() if k not in bound})
        node.body = sub.visit(node.body)
        return node

    def _comp(self, node):
        bound = set()
        for g in node.generators:
            for n in ast.walk(g.target):
                if isinstance(n, ast.Name):
                    bound.add(n.id)
        sub = _Rename({k: v for k, v in self.m.items() if k not in bound})
        for f in node._fields:
            v = getattr(node, f)
            if isinstance(v, list):
                setattr(node, f, [sub.visit(x) for x in v])
            elif isinstance(v, ast.AST):
                setattr(node, f, sub.visit(v))
        return node

    visit_ListComp = visit_SetComp = visit_DictComp = visit_GeneratorExp = _comp


class _ReturnRewriter(ast.NodeTransformer):
    """return e  ->  <ret> = e ; InlineJump   (not descending into nested defs / lambdas)"""

    def __init__(self, ret):
        self.ret = ret

    def visit_FunctionDef(self, node):
        return node
    visit_AsyncFunctionDef = visit_Lambda = visit_ClassDef = visit_FunctionDef

    def visit_Return(self, node):
        val = node.value if node.value is not None else ast.Constant(value=None)
        a = ast.copy_location(ast.Assign(targets=[ast.Name(id=self.ret, ctx=ast.Store())], value=val, type_comment=None), node)
        ast.fix_missing_locations(a)
        j = ast.copy_location(InlineJump(), node)
        j.ret = self.ret
        return [a, j]


class Normalizer:
    def __init__(self, modules, known_functions, known_constants):
        self.modules = modules
        self.known_f = known_functions
        self.known_c = known_constants
        self.counter = 0
        self.inlined = []      # (caller, helper) for evidence
        self.dead = set()
        self.unrolled = []
        self.split_handlers = []
        self.lowered = []
        self._closures = {}
        self._index()
        self._inline_decorators()

    # -- decorators / context managers -------------------------------------------
    def _inline_decorators(self):
        """N47: a function decorated with a module-level pass-through wrapper,

            def deco(f):                              @deco
                @functools.wraps(f)                   def g(self, x): BODY
                def w(self, x):
                    try: return f(self, x)       ->   def g(self, x):
                    except Exception: return False        try: BODY
                return w                                  except Exception: return False

        (w's parameters are handed to f unchanged and in order, f is called once, as `return f(..)`; nothing else in deco): the wrapper's body
        with BODY in the place of that return.  N48: `with C():` over a class of the module whose __enter__ only returns self / nothing and whose
        __exit__ ignores its arguments and does not return a true value is `try: .. finally: <the body of __exit__>`."""
        for modname, mod in self.modules.items():
            decos = {}
            for fd in mod.tree.body:
                if isinstance(fd, ast.FunctionDef) and len(fd.args.args) == 1 and not fd.decorator_list and len(fd.body) == 2 \
                        and isinstance(fd.body[0], ast.FunctionDef) and isinstance(fd.body[1], ast.Return) and isinstance(fd.body[1].value, ast.Name) \
                        and fd.body[1].value.id == fd.body[0].name:
                    w, fpar = fd.body[0], fd.args.args[0].arg
                    if any(not (isinstance(d, ast.Call) and ast.unparse(d.func) in ("functools.wraps", "wraps")) for d in w.decorator_list):
                        continue
                    wa = w.args
                    if wa.vararg or wa.kwarg or wa.kwonlyargs or wa.defaults or wa.posonlyargs:
                        continue
                    wp = [a.arg for a in wa.args]
                    calls = [n for n in ast.walk(w) if isinstance(n, ast.Call) and isinstance(n.func, ast.Name) and n.func.id == fpar]
                    uses = [n for n in ast.walk(w) if isinstance(n, ast.Name) and n.id == fpar]
                    if len(calls) != 1 or len(uses) != (1 + len(w.decorator_list)):
                        continue
                    c = calls[0]
                    if c.keywords or [ast.unparse(a) for a in c.args] != wp:
                        continue
                    rets = [n for n in ast.walk(w) if isinstance(n, ast.Return) and n.value is c]
                    if len(rets) != 1:
                        continue
                    decos[fd.name] = (w, wp, rets[0])
            if not decos:
                continue

            def apply(fdef):
                if len(fdef.decorator_list) != 1 or not isinstance(fdef.decorator_list[0], ast.Name) or fdef.decorator_list[0].id not in decos:
                    return
                w, wp, ret = decos[fdef.decorator_list[0].id]
                fa = fdef.args
                if fa.vararg or fa.kwarg or fa.kwonlyargs or fa.defaults or fa.posonlyargs or len(fa.args) != len(wp):
                    return
                fp = [a.arg for a in fa.args]
                loc = _local_names(fdef)
                wloc = _local_names(w) - set(wp)
                if wloc & (loc | set(fp)):
                    return
                w2 = copy.deepcopy(w)
                ret2 = [n for n in ast.walk(w2) if isinstance(n, ast.Return) and ast.dump(n) == ast.dump(ret)]
                if len(ret2) != 1:
                    return
                w2 = _Rename(dict(zip(wp, fp))).visit(w2) if wp != fp else w2
                body = fdef.body

                def put(ss):
                    for i, s_ in enumerate(ss):
                        if s_ is ret2[0]:
                            ss[i:i + 1] = body
                            return True
                        for owner, f in _child_lists(s_):
                            if put(getattr(owner, f)):
                                return True
                    return False
                if not put(w2.body):
                    return
                fdef.body = w2.body
                fdef.decorator_list = []
                self.lowered.append((f"{modname}:{fdef.name}", getattr(fdef, "lineno", 0), "decorator"))
            for st in mod.tree.body:
                if isinstance(st, ast.FunctionDef):
                    apply(st)
                elif isinstance(st, ast.ClassDef):
                    for m in st.body:
                        if isinstance(m, ast.FunctionDef):
                            apply(m)

    # -- index ------------------------------------------------------------------
    def _index(self):
        self.mod_funcs = {}     # mod -> {name: FunctionDef}
        self.classes = {}       # (mod, cls) -> ClassDef
        self.by_bare = {}       # bare class name -> [(mod, ClassDef)]
        for name, mod in self.modules.items():
            self.mod_funcs[name] = {}
            for st in mod.tree.body:
                if isinstance(st, ast.FunctionDef):
                    self.mod_funcs[name][st.name] = st
                elif isinstance(st, ast.ClassDef):
                    self.classes[(name, st.name)] = st
                    self.by_bare.setdefault(st.name, []).append((name, st))

    @staticmethod
    def _methods(cdef):
        return {s.name: s for s in cdef.body if isinstance(s, ast.FunctionDef)}

    def _base_names(self, cdef):
        out = []
        for b in cdef.bases:
            if isinstance(b, ast.Name):
                out.append(b.id)
            elif isinstance(b, ast.Attribute):
                out.append(b.attr)
        return out

    def _descendants(self, bare):
        out, todo = set(), [bare]
        while todo:
            b = todo.pop()
            for (m, c), cd in self.classes.items():
                if b in self._base_names(cd) and (m, c) not in out:
                    out.add((m, c))
                    todo.append(c)
        return out

    def _overridden(self, modname, cname, meth):
        for (m, c) in self._descendants(cname):
            if meth in self._methods(self.classes[(m, c)]):
                return True
        return False

    # -- what may be inlined ---------------------------------------------------------
    def _inlinable_def(self, fdef, closure=False):
        a = fdef.args
        if a.vararg or a.kwarg or a.posonlyargs:
            return False
        decos = [d.id if isinstance(d, ast.Name) else getattr(d, "attr", "?") for d in fdef.decorator_list]
        if any(d not in ("staticmethod", "classmethod") for d in decos):
            return False
        for n in ast.walk(fdef):
            if isinstance(n, (ast.Yield, ast.YieldFrom, ast.Await, ast.Global)):
                return False
            # `nonlocal x` in a local closure: spliced into its enclosing function, x simply is that function's x
            if isinstance(n, ast.Nonlocal) and not closure:
                return False
        return True

    def _resolve(self, call, modname, cname):
        """-> (qual, FunctionDef, bound_self) for an inlinable callee, else None"""
        f = call.func
        if any(isinstance(a, ast.Starred) for a in call.args) or any(k.arg is None for k in call.keywords):
            return None
        if isinstance(f, ast.Name) and f.id in self._closures:
            fd = self._closures[f.id]
            fname = f"<{f.id}@{getattr(fd, 'lineno', 0)}>"
            return (f"{modname}:{cname}.{fname}" if cname else f"{modname}:{fname}"), fd, False
        if isinstance(f, ast.Name):
            fd = self.mod_funcs.get(modname, {}).get(f.id)
            if fd is None:
                return None
            q = f"{modname}:{f.id}"
            if q in self.known_f or not self._inlinable_def(fd):
                return None
            return q, fd, False
        if isinstance(f, ast.Attribute) and isinstance(f.value, ast.Name) and cname is not None:
            recv = f.value.id
            cdef = self.classes.get((modname, cname))
            if cdef is None:
                return None
            if recv == "self" or recv == cname or recv == "cls":
                fd = self._methods(cdef).get(f.attr)
                owner = cname
                if fd is None and recv == "self":
                    # inherited from a base class of the same module (single chain of plain-name bases)
                    cur, hops = cdef, 0
                    foreign = False
                    while fd is None and hops < 6:
                        bs = [self.classes.get((modname, b)) for b in self._base_names(cur)] if not foreign else []
                        bs = [b for b in bs if b is not None]
                        if not bs and len(cur.bases) == 1 and len(self._base_names(cur)) == 1 and len(self.by_bare.get(self._base_names(cur)[0], [])) == 1:
                            # the base class lives in another module: its helper is taken only if it names nothing of that module
                            bs, foreign = [self.by_bare[self._base_names(cur)[0]][0][1]], True
                        if len(bs) != 1 or len(cur.bases) != 1:
                            break
                        cur, hops = bs[0], hops + 1
                        fd = self._methods(cur).get(f.attr)
                        owner = cur.name
                    if fd is not None and foreign:
                        import builtins as _b
                        free = {n.id for n in ast.walk(fd) if isinstance(n, ast.Name)} - _local_names(fd) - {a.arg for a in ast.walk(fd.args) if isinstance(a, ast.arg)} \
                            - set(dir(_b))
                        comp_t = {n.id for c_ in ast.walk(fd) if isinstance(c_, ast.comprehension) for n in ast.walk(c_.target) if isinstance(n, ast.Name)}
                        # (bound: only procedures - helpers that hand nothing back; a value-returning method of a foreign base keeps its name, which is
                        # what the rules about it read)
                        if any(isinstance(n, ast.Return) and n.value is not None for n in ast.walk(fd)) or free - comp_t or any(isinstance(n, ast.Call) and isinstance(n.func, ast.Attribute) and isinstance(n.func.value, ast.Name) and n.func.value.id == "self"
                                                for n in ast.walk(fd)):
                            fd = None
                if fd is None:
                    return None
                q = f"{modname}:{owner}.{f.attr}"
                if q in self.known_f or not self._inlinable_def(fd):
                    return None
                if self._overridden(modname, cname, f.attr):
                    return None
                static = any((isinstance(d, ast.Name) and d.id == "staticmethod") for d in fd.decorator_list)
                clsm = any((isinstance(d, ast.Name) and d.id == "classmethod") for d in fd.decorator_list)
                if recv == cname and not static:
                    return None
                if clsm and recv not in ("self", "cls"):
                    return None
                if recv == "cls" and not (clsm or static):
                    return None
                return q, fd, (not static)
        return None

    # -- unconditional call positions in a statement -------------------------------------
    def _first_call(self, node, modname, cname, stack):
        """First inlinable call in evaluation order among the unconditionally evaluated sub-expressions."""
        if node is None:
            return None
        if isinstance(node, (ast.Lambda, ast.ListComp, ast.SetComp, ast.DictComp, ast.GeneratorExp,
                             ast.FunctionDef, ast.AsyncFunctionDef, ast.ClassDef)):
            return None
        if isinstance(node, ast.BoolOp):
            return self._first_call(node.values[0], modname, cname, stack)
        if isinstance(node, ast.IfExp):
            return self._first_call(node.test, modname, cname, stack)
        if isinstance(node, ast.Call):
            for sub in [node.func] + list(node.args) + [k.value for k in node.keywords]:
                r = self._first_call(sub, modname, cname, stack)
                if r is not None:
                    return r
            res = self._resolve(node, modname, cname)
            if res is not None and res[0] not in stack:
                return node, res
            return None
        for c in ast.iter_child_nodes(node):
            if isinstance(c, ast.expr):
                r = self._first_call(c, modname, cname, stack)
                if r is not None:
                    return r
        return None

    # -- the rewrite -------------------------------------------------------------------
    def run(self):
        for modname, mod in self.modules.items():
            for st in mod.tree.body:
                if isinstance(st, ast.FunctionDef):
                    self._function(st, modname, None, (f"{modname}:{st.name}",))
                elif isinstance(st, ast.ClassDef):
                    for s in st.body:
                        if isinstance(s, ast.FunctionDef):
                            self._function(s, modname, st.name, (f"{modname}:{st.name}.{s.name}",))
            mod.tree = _AttrCalls().visit(mod.tree)
        self._find_dead()
        return self

    def _find_dead(self):
        """Unknown helpers that no longer occur anywhere (every call was inlined): dead code, not indexed."""
        self.dead = set()
        cand = {}
        for modname, mod in self.modules.items():
            for st in mod.tree.body:
                if isinstance(st, ast.FunctionDef) and f"{modname}:{st.name}" not in self.known_f:
                    cand[f"{modname}:{st.name}"] = st
                elif isinstance(st, ast.ClassDef):
                    for s in st.body:
                        if isinstance(s, ast.FunctionDef) and f"{modname}:{st.name}.{s.name}" not in self.known_f \
                                and not (s.name.startswith("__") and s.name.endswith("__")):
                            cand[f"{modname}:{st.name}.{s.name}"] = s
        if not cand:
            return
        inlined = {h for _, h in self.inlined}
        names = {}
        for q, fd in cand.items():
            names.setdefault(fd.name, []).append(q)
        used = set()
        for modname, mod in self.modules.items():
            own = {id(x) for q, fd in cand.items() if q.startswith(modname + ":") for x in ast.walk(fd)}
            for n_ in ast.walk(mod.tree):
                if id(n_) in own:
                    continue
                nm = n_.id if isinstance(n_, ast.Name) else (n_.attr if isinstance(n_, ast.Attribute) else None)
                if nm in names:
                    used.add(nm)
        for nm, qs in names.items():
            if nm not in used:
                self.dead |= {q for q in qs if q in inlined}

    def _import_roots(self, modname):
        cache = self.__dict__.setdefault("_rootcache", {})
        if modname not in cache:
            out = set()
            for st in self.modules[modname].tree.body:
                if isinstance(st, ast.Import):
                    out |= {(a.asname or a.name.split(".")[0]) for a in st.names}
            cache[modname] = out
        return cache[modname]

    def _member_init_only(self, modname, cname, attr):
        cdef = self.classes.get((modname, cname))
        if cdef is None:
            return False
        for m in cdef.body:
            if isinstance(m, ast.FunctionDef) and m.name != "__init__":
                if any(isinstance(a, ast.Attribute) and a.attr == attr and isinstance(a.ctx, (ast.Store, ast.Del)) and isinstance(a.value, ast.Name) and a.value.id == "self"
                       for a in ast.walk(m)):
                    return False
        return any(isinstance(m, ast.FunctionDef) and m.name == "__init__" for m in cdef.body)

    def _const_via_member(self, e, modname, cname):
        """self.<member>.UPPER(.UPPER)*: a class-level constant reached through a member object that the class binds in __init__ only (the dongle, the
        pin file ...): the same value wherever it is evaluated within one request"""
        n, x = 0, e
        while isinstance(x, ast.Attribute) and re.fullmatch(r"_?[A-Z][A-Z0-9_]*", x.attr):
            x = x.value
            n += 1
        if not (n >= 1 and isinstance(x, ast.Attribute) and isinstance(x.value, ast.Name) and x.value.id == "self" and cname is not None):
            return False
        cdef = self.classes.get((modname, cname))
        if cdef is None:
            return False
        for m in cdef.body:
            if isinstance(m, ast.FunctionDef) and m.name != "__init__":
                if any(isinstance(a, ast.Attribute) and a.attr == x.attr and isinstance(a.ctx, (ast.Store, ast.Del)) for a in ast.walk(m)):
                    return False
        return True

    def _table_conditions(self, fdef, modname):
        """N49: `x = TABLE.get(K)` with TABLE a module-level dict display of constants (no None among the values) and K a plain name / attribute or
        `<name>.lower()`-style call, x bound once and used only as a condition:
            x is None -> K not in [keys]      x is not None -> K in [keys]      x -> K in [keys with a true value]      not x -> K not in [those]
        (the assignment stays; K is evaluated again in each test, which nobody notices for such K)."""
        tables = {}
        for st in self.modules[modname].tree.body:
            if isinstance(st, ast.Assign) and len(st.targets) == 1 and isinstance(st.targets[0], ast.Name) and isinstance(st.value, ast.Dict) and st.value.keys \
                    and all(isinstance(k, ast.Constant) and isinstance(k.value, (str, int)) for k in st.value.keys) \
                    and all(isinstance(v, ast.Constant) and v.value is not None for v in st.value.values):
                tables[st.targets[0].id] = st.value
        if not tables:
            return
        for t in list(tables):
            if sum(1 for st in self.modules[modname].tree.body for n in ast.walk(st) if isinstance(n, ast.Name) and n.id == t and isinstance(n.ctx, ast.Store)) != 1:
                del tables[t]

        def pure_key(k):
            if isinstance(k, ast.Call) and isinstance(k.func, ast.Attribute) and k.func.attr in ("lower", "upper", "strip", "casefold") and not k.args and not k.keywords:
                return pure_key(k.func.value)
            return _side_effect_free(k) and not isinstance(k, ast.Constant)
        cands = {}
        for n in ast.walk(fdef):
            if isinstance(n, ast.Assign) and len(n.targets) == 1 and isinstance(n.targets[0], ast.Name) and isinstance(n.value, ast.Call) \
                    and isinstance(n.value.func, ast.Attribute) and n.value.func.attr == "get" and isinstance(n.value.func.value, ast.Name) \
                    and n.value.func.value.id in tables and len(n.value.args) == 1 and not n.value.keywords and pure_key(n.value.args[0]):
                cands.setdefault(n.targets[0].id, []).append(n)
        for x, defs in cands.items():
            stores = [n for n in ast.walk(fdef) if isinstance(n, ast.Name) and n.id == x and isinstance(n.ctx, (ast.Store, ast.Del))]
            if len(defs) != 1 or len(stores) != 1:
                continue
            d = defs[0]
            K, T = d.value.args[0], tables[d.value.func.value.id]
            knames = {n.id for n in ast.walk(K) if isinstance(n, ast.Name)}
            # K must mean the same at the tests: its names are not re-bound inside the function after ... (kept simple: bound at most once, or parameters)
            if any(sum(1 for n in ast.walk(fdef) if isinstance(n, ast.Name) and n.id == kn and isinstance(n.ctx, ast.Store)) > 1 for kn in knames):
                continue
            loads = [n for n in ast.walk(fdef) if isinstance(n, ast.Name) and n.id == x and isinstance(n.ctx, ast.Load)]
            allk = ast.List(elts=[copy.deepcopy(k) for k in T.keys], ctx=ast.Load())
            truek = ast.List(elts=[copy.deepcopy(k) for k, v in zip(T.keys, T.values) if v.value], ctx=ast.Load())
            repl = {}
            ok = True

            def cond_sites(node):
                sites = []
                for n in ast.walk(node):
                    tests = []
                    if isinstance(n, (ast.If, ast.While, ast.IfExp)):
                        tests.append(n.test)
                    for t in tests:
                        stack_ = [t]
                        while stack_:
                            e = stack_.pop()
                            if isinstance(e, ast.BoolOp):
                                stack_ += e.values
                            else:
                                sites.append(e)
                return sites
            used = set()
            for e in cond_sites(fdef):
                neg, core = False, e
                while isinstance(core, ast.UnaryOp) and isinstance(core.op, ast.Not):
                    neg, core = not neg, core.operand
                if isinstance(core, ast.Name) and core.id == x:
                    repl[id(e)] = ast.Compare(left=copy.deepcopy(K), ops=[ast.NotIn() if neg else ast.In()], comparators=[copy.deepcopy(truek)])
                    used.add(id(core))
                elif isinstance(core, ast.Compare) and len(core.ops) == 1 and isinstance(core.left, ast.Name) and core.left.id == x \
                        and isinstance(core.ops[0], (ast.Is, ast.IsNot)) and isinstance(core.comparators[0], ast.Constant) and core.comparators[0].value is None:
                    isnone = isinstance(core.ops[0], ast.Is) != neg
                    repl[id(e)] = ast.Compare(left=copy.deepcopy(K), ops=[ast.NotIn() if isnone else ast.In()], comparators=[copy.deepcopy(allk)])
                    used.add(id(core.left))
            if not repl or any(id(n) not in used for n in loads):
                continue

            class _R(ast.NodeTransformer):
                def visit(s_, node):
                    if id(node) in repl:
                        return ast.fix_missing_locations(ast.copy_location(repl[id(node)], node))
                    return super().visit(node)
            _R().visit(fdef)
            self.lowered.append((f"{modname}:{fdef.name}", getattr(d, "lineno", 0), f"table condition {x}"))

    def _hexfuncs(self, modname):
        """module-level names standing for binascii.hexlify / b2a_hex (and `binascii` itself when the module is imported)"""
        cache = self.__dict__.setdefault("_hexcache", {})
        if modname not in cache:
            out = set()
            mod = self.modules.get(modname)
            for st in (getattr(mod, "body", None) or getattr(getattr(mod, "tree", None), "body", None) or []):
                if isinstance(st, ast.ImportFrom) and st.module == "binascii":
                    out |= {a.asname or a.name for a in st.names if a.name in ("hexlify", "b2a_hex")}
                if isinstance(st, ast.Import):
                    out |= {"binascii" for a in st.names if a.name == "binascii" and a.asname is None}
            cache[modname] = out
        return cache[modname]

    def _function(self, fdef, modname, cname, stack):
        if getattr(fdef, "_normalised", False):
            return
        fdef._normalised = True
        self._table_conditions(fdef, modname)
        _CmpCanon(self._hexfuncs(modname)).visit(fdef)
        _propagate_bools(fdef)
        fdef.body = _sink_returns(fdef.body)
        state = {"locals": _local_names(fdef), "caller": stack[0], "displays": _single_displays(fdef), "module": modname, "root": fdef}
        self._closures = {}
        _dict_display_loops(fdef)
        self._comp_displays(fdef, modname, cname, state)
        _merge_dict_stores(fdef)
        fdef.body = _sink_returns(fdef.body)       # again: a display completed above may now be returned through a temporary
        fdef.body = _drop_dead_defs(fdef, _flatten_blocks(self._stmts(fdef.body, modname, cname, stack, state)))
        _resplit_assigns(fdef.body)
        kd_ = []
        _kwargs_dicts(fdef, kd_)
        for d_, n_, ln_ in kd_:
            self.lowered.append((stack[0], ln_, f"kwargs dict {d_} ({n_} calls)"))
        sd_ = []
        _scalar_dicts(fdef, sd_)
        for d_, ns_, ln_ in sd_:
            self.lowered.append((stack[0], ln_, f"dict slots {d_}->{ns_}"))
        al_ = []
        _eliminate_aliases(fdef, al_, member_ok=(lambda a_: self._member_init_only(modname, cname, a_)) if cname is not None and fdef.name != "__init__" else None,
                           modroots=self._import_roots(modname))
        for y_, x_, ln_ in al_:
            self.lowered.append((stack[0], ln_, f"alias {y_}->{x_}"))

    def _stmts(self, stmts, modname, cname, stack, state):
        stmts = self._sink_tail(stmts)
        out = []
        saved = dict(self._closures)
        for st in stmts:
            if isinstance(st, ast.FunctionDef) and not st.decorator_list and self._inlinable_def(st, closure=True) and self._closure_only_called(st, state):
                # N12: a local function that is only ever called: its calls further down this block are inlined like any helper
                self._closures[st.name] = st
                out.append(st)
                continue
            out += self._stmt(st, modname, cname, stack, state)
            for nm in list(self._closures):
                if self._closures[nm] is not saved.get(nm) or True:
                    if any((isinstance(n, (ast.FunctionDef, ast.AsyncFunctionDef, ast.ClassDef)) and n.name == nm)
                           or (isinstance(n, ast.Name) and n.id == nm and isinstance(n.ctx, (ast.Store, ast.Del))) for n in ast.walk(st)):
                        del self._closures[nm]
        self._closures = saved
        return _unpack_fields(_counted_list_loops(_quantifier_loops(_genexp_loops(_inplace_maps(out), state.get("root")))))

    def _closure_only_called(self, fd, state):
        root = state.get("root")
        if root is None:
            return False
        calls = {id(n.func) for n in ast.walk(root) if isinstance(n, ast.Call) and isinstance(n.func, ast.Name) and n.func.id == fd.name}
        for n in ast.walk(root):
            if isinstance(n, ast.Name) and n.id == fd.name and isinstance(n.ctx, ast.Load) and id(n) not in calls:
                return False
        # the closure must not refer to itself and must not bind names of the enclosing function through nonlocal (checked by _inlinable_def)
        return not any(isinstance(n, ast.Name) and n.id == fd.name for n in ast.walk(fd))

    def _sink_tail(self, stmts):
        """Tail duplication: when the branches of an `if` define a local function that the statements after the `if` call, those statements
        are copied to the end of every branch that can fall through - each copy then sees exactly one definition."""
        for i, st in enumerate(stmts):
            if not isinstance(st, ast.If) or i + 1 >= len(stmts) or len(stmts) - i > 40:
                continue
            names = {s_.name for br in (st.body, st.orelse) for s_ in br if isinstance(s_, ast.FunctionDef)}
            if not names:
                continue
            tail = stmts[i + 1:]
            used = {n.func.id for t in tail for n in ast.walk(t) if isinstance(n, ast.Call) and isinstance(n.func, ast.Name)}
            if not (names & used):
                continue
            if any(isinstance(n, (ast.FunctionDef, ast.AsyncFunctionDef, ast.ClassDef, ast.Lambda)) for t in tail for n in ast.walk(t)):
                continue
            if not _ends_flow(st.body):
                st.body = st.body + copy.deepcopy(tail)
            if not _ends_flow(st.orelse):
                st.orelse = st.orelse + copy.deepcopy(tail)
            self.lowered.append(("?", getattr(st, "lineno", 0), "tail-duplication"))
            return stmts[:i + 1]
        return stmts

    def _stmt(self, st, modname, cname, stack, state):
        rec = lambda body: self._stmts(body, modname, cname, stack, state)  # noqa: E731
        if isinstance(st, (ast.FunctionDef, ast.AsyncFunctionDef, ast.ClassDef)):
            return [st]
        if isinstance(st, InlineBlock):
            return [st]
        if isinstance(st, ast.If) and any(isinstance(n, ast.NamedExpr) for n in ast.walk(st.test)):
            low = self._walrus_if(st)
            if low is not None:
                self.lowered.append((state["caller"], getattr(st, "lineno", 0), "walrus"))
                out = []
                for s_ in low:
                    out += self._stmt(s_, modname, cname, stack, state)
                return out
        if isinstance(st, ast.If) and isinstance(st.test, ast.BoolOp) and isinstance(st.test.op, ast.And) and len(st.test.values) >= 2 \
                and (not st.orelse or (len(st.orelse) <= 3 and not any(isinstance(x, (ast.If, ast.For, ast.While, ast.Try, ast.With, ast.FunctionDef, ast.Lambda, InlineBlock))
                                                                       for s_ in st.orelse for x in ast.walk(s_)))):
            # N42: `if A and C(h()): B` (no else; h an inlinable helper in a later operand)  ->  `if A: if C(h()): B` - the same short-circuit, and h's
            # call is now in a position where it is always evaluated, so that N1 can inline it
            vals = st.test.values
            for k in range(1, len(vals)):
                if self._first_call(vals[k], modname, cname, stack) is not None:
                    def conj(vs, at):
                        return vs[0] if len(vs) == 1 else ast.copy_location(ast.BoolOp(op=ast.And(), values=list(vs)), at)
                    # (a short straight-line else branch is taken on either way of failing: it is repeated)
                    inner = ast.copy_location(ast.If(test=conj(vals[k:], vals[k]), body=st.body, orelse=st.orelse), st)
                    outer = ast.copy_location(ast.If(test=conj(vals[:k], st.test), body=[inner], orelse=copy.deepcopy(st.orelse)), st)
                    ast.fix_missing_locations(outer)
                    self.lowered.append((state["caller"], getattr(st, "lineno", 0), "and-split"))
                    return self._stmt(outer, modname, cname, stack, state)
        if isinstance(st, ast.If):
            st.body = rec(st.body)
            st.orelse = rec(st.orelse)
            return self._hoist(st, "test", modname, cname, stack, state)
        if isinstance(st, ast.While):
            st.body = rec(st.body)
            st.orelse = rec(st.orelse)
            hit = self._first_call(st.test, modname, cname, stack)
            if hit is not None and not st.orelse:
                # while C(h()): B   ->   while True: <inline h>; if not C(ret): break; B
                brk = ast.copy_location(ast.If(test=ast.UnaryOp(op=ast.Not(), operand=st.test), body=[ast.copy_location(ast.Break(), st)],
                                               orelse=[]), st)
                ast.fix_missing_locations(brk)
                new = ast.copy_location(ast.While(test=ast.Constant(value=True), body=self._hoist(brk, "test", modname, cname, stack, state) + st.body,
                                                  orelse=[]), st)
                ast.fix_missing_locations(new)
                return [new]
            return [st]
        if isinstance(st, ast.For) and not st.orelse and isinstance(st.iter, ast.Call) and not st.iter.keywords and len(st.iter.args) <= 1 \
                and ast.unparse(st.iter.func) in ("itertools.count", "count") and isinstance(st.target, ast.Name) \
                and all(isinstance(a_, ast.Constant) and isinstance(a_.value, int) for a_ in st.iter.args):
            # N34: for v in itertools.count(k): B   ->   v = k; while True: B; v += 1     (no `continue` in B, v not re-bound in B)
            v = st.target.id
            has_continue = any(isinstance(x, ast.Continue) for s_ in st.body for x in ast.walk(s_))
            rebound = any(isinstance(x, ast.Name) and x.id == v and isinstance(x.ctx, (ast.Store, ast.Del)) for s_ in st.body for x in ast.walk(s_))
            if not has_continue and not rebound:
                init = ast.Assign(targets=[ast.Name(id=v, ctx=ast.Store())], value=ast.Constant(value=st.iter.args[0].value if st.iter.args else 0), type_comment=None)
                inc = ast.AugAssign(target=ast.Name(id=v, ctx=ast.Store()), op=ast.Add(), value=ast.Constant(value=1))
                loop = ast.While(test=ast.Constant(value=True), body=list(st.body) + [inc], orelse=[])
                for o in (init, loop, inc):
                    ast.copy_location(o, st)
                    ast.fix_missing_locations(o)
                self.lowered.append((state["caller"], getattr(st, "lineno", 0), "itertools-count"))
                out = []
                for s_ in (init, loop):
                    out += self._stmt(s_, modname, cname, stack, state)
                return out
        if isinstance(st, ast.For) and st.orelse:
            low = self._for_else(st, state)
            if low is not None:
                self.lowered.append((state["caller"], getattr(st, "lineno", 0), "for-range-else"))
                out = []
                for s_ in low:
                    out += self._stmt(s_, modname, cname, stack, state)
                return out
        if isinstance(st, ast.For) and isinstance(st.iter, ast.Call) and isinstance(st.iter.func, ast.Name) and st.iter.func.id == "map" \
                and len(st.iter.args) == 2 and not st.iter.keywords and isinstance(st.target, ast.Name) \
                and isinstance(st.iter.args[0], ast.Attribute) and isinstance(st.iter.args[0].value, ast.Name) and st.iter.args[0].value.id in ("str", "bytes") \
                and isinstance(st.iter.args[1], ast.Call) and isinstance(st.iter.args[1].func, ast.Attribute) \
                and st.iter.args[1].func.attr in ("split", "rsplit", "splitlines", "partition"):
            # N29: for x in map(str.strip, s.split(",")): B   ->   for x in s.split(","): x = x.strip(); B
            # (the pieces of a split are strings / bytes of the receiver's own type, for which T.m(x) is x.m())
            meth = st.iter.args[0].attr
            asg = ast.Assign(targets=[ast.Name(id=st.target.id, ctx=ast.Store())],
                             value=ast.Call(func=ast.Attribute(value=ast.Name(id=st.target.id, ctx=ast.Load()), attr=meth, ctx=ast.Load()), args=[], keywords=[]),
                             type_comment=None)
            ast.copy_location(asg, st)
            ast.fix_missing_locations(asg)
            st.iter = st.iter.args[1]
            st.body = [asg] + st.body
            self.lowered.append((state["caller"], getattr(st, "lineno", 0), "map-method"))
        if isinstance(st, ast.For) and isinstance(st.iter, ast.Call) and isinstance(st.iter.func, ast.Attribute) and st.iter.func.attr == "items" \
                and not st.iter.args and not st.iter.keywords and _side_effect_free(st.iter.func.value) \
                and isinstance(st.target, (ast.Tuple, ast.List)) and len(st.target.elts) == 2 and all(isinstance(e, ast.Name) for e in st.target.elts):
            # N18: for k, v in D.items(): B   ->   for k in D: v = D[k]; B        (D a plain name / attribute path that B does not re-bind)
            dn = {n.id for n in ast.walk(st.iter.func.value) if isinstance(n, ast.Name)}
            kname, vname = st.target.elts[0].id, st.target.elts[1].id
            stores = {n.id for x in st.body for n in ast.walk(x) if isinstance(n, ast.Name) and isinstance(n.ctx, (ast.Store, ast.Del))}
            if not (dn & (stores | {kname, vname})) and kname != vname and kname not in stores:
                d = st.iter.func.value
                asg = ast.Assign(targets=[ast.Name(id=vname, ctx=ast.Store())],
                                 value=ast.Subscript(value=copy.deepcopy(d), slice=ast.Name(id=kname, ctx=ast.Load()), ctx=ast.Load()), type_comment=None)
                ast.copy_location(asg, st)
                ast.fix_missing_locations(asg)
                st.target = ast.copy_location(ast.Name(id=kname, ctx=ast.Store()), st.target)
                st.iter = d
                st.body = [asg] + st.body
                self.lowered.append((state["caller"], getattr(st, "lineno", 0), "dict-items"))
        if isinstance(st, ast.For) and not st.orelse and isinstance(st.target, ast.Name) and isinstance(st.iter, ast.Call) and len(stack) <= MAX_DEPTH:
            low = self._generator_loop(st, modname, cname, stack, state)
            if low is not None:
                return low
        if isinstance(st, (ast.For, ast.AsyncFor)):
            st.body = rec(st.body)
            st.orelse = rec(st.orelse)
            self._renorm = False
            un = self._unroll(st, modname, cname, state)
            if un is not None:
                if self._renorm:
                    self._renorm = False
                    return rec(un)
                return un
            return self._hoist(st, "iter", modname, cname, stack, state)
        if isinstance(st, ast.With) and len(st.items) == 1 and st.items[0].optional_vars is None and isinstance(st.items[0].context_expr, ast.Call) \
                and isinstance(st.items[0].context_expr.func, ast.Name) and not st.items[0].context_expr.args and not st.items[0].context_expr.keywords:
            # N48: `with C():` over a class of this module without state: __enter__ returns self / nothing, __exit__ ignores its arguments and the
            # instance and never returns a true value  ->  try: BODY finally: <body of __exit__>
            cdef = self.classes.get((modname, st.items[0].context_expr.func.id))
            ms = self._methods(cdef) if cdef is not None else {}
            en, ex = ms.get("__enter__"), ms.get("__exit__")
            if en is not None and ex is not None and "__init__" not in ms and not cdef.bases and len(ex.args.args) == 4 and len(en.args.args) == 1 \
                    and not en.decorator_list and not ex.decorator_list:
                ok_en = all(isinstance(b, ast.Pass) or (isinstance(b, ast.Return) and (b.value is None or (isinstance(b.value, ast.Name) and b.value.id == en.args.args[0].arg)
                                                                                        or (isinstance(b.value, ast.Constant) and b.value.value is None)))
                            or (isinstance(b, ast.Expr) and isinstance(b.value, ast.Constant)) for b in en.body)
                pars = {a.arg for a in ex.args.args}
                ok_ex = not any(isinstance(n, ast.Name) and n.id in pars for b in ex.body for n in ast.walk(b)) \
                    and not any(isinstance(n, ast.Return) and n.value is not None and not (isinstance(n.value, ast.Constant) and not n.value.value) for b in ex.body for n in ast.walk(b)) \
                    and not any(isinstance(n, (ast.Yield, ast.YieldFrom, ast.Await, ast.FunctionDef, ast.Lambda)) for b in ex.body for n in ast.walk(b))
                if ok_en and ok_ex:
                    fin = [b for b in copy.deepcopy(ex.body) if not (isinstance(b, ast.Return) or (isinstance(b, ast.Expr) and isinstance(b.value, ast.Constant)))] \
                        or [ast.copy_location(ast.Pass(), st)]
                    if not any(isinstance(n, ast.Return) for b in fin for n in ast.walk(b)):
                        new = ast.copy_location(ast.Try(body=st.body, handlers=[], orelse=[], finalbody=fin), st)
                        ast.fix_missing_locations(new)
                        self.lowered.append((state["caller"], getattr(st, "lineno", 0), "context-manager"))
                        return self._stmt(new, modname, cname, stack, state)
        if isinstance(st, ast.With) and len(st.items) == 1 and st.items[0].optional_vars is None and self._is_suppress(st.items[0].context_expr, modname):
            # N10: with contextlib.suppress(A, B): BODY  ->  try: BODY except (A, B): pass
            c = st.items[0].context_expr
            typ = c.args[0] if len(c.args) == 1 else ast.copy_location(ast.Tuple(elts=list(c.args), ctx=ast.Load()), c)
            h = ast.copy_location(ast.ExceptHandler(type=typ, name=None, body=[ast.copy_location(ast.Pass(), st)]), st)
            new = ast.copy_location(ast.Try(body=st.body, handlers=[h], orelse=[], finalbody=[]), st)
            ast.fix_missing_locations(new)
            self.lowered.append((state["caller"], getattr(st, "lineno", 0), "suppress"))
            return self._stmt(new, modname, cname, stack, state)
        if isinstance(st, (ast.With, ast.AsyncWith)):
            st.body = rec(st.body)
            return [st]
        if isinstance(st, ast.Try):
            st.body = rec(st.body)
            st.orelse = rec(st.orelse)
            st.finalbody = rec(st.finalbody)
            for h in st.handlers:
                h.body = rec(h.body)
            st.handlers = self._split_handlers(st.handlers, state)
            return [st]
        if isinstance(st, (ast.Assign, ast.Return)) and isinstance(getattr(st, "value", None), ast.Tuple) \
                and not any(isinstance(x, ast.Starred) for x in st.value.elts):
            # N5 inside a display: `return (K, A if C else B)` with only constants before the conditional element -> if C: return (K, A) else: return (K, B)
            elts = st.value.elts
            for i_, x in enumerate(elts):
                if isinstance(x, ast.IfExp) and all(isinstance(y, ast.Constant) for y in elts[:i_]):
                    def mk2(val, i_=i_):
                        s2 = copy.copy(st)
                        s2.value = ast.copy_location(ast.Tuple(elts=[copy.deepcopy(y) for y in elts[:i_]] + [val] + [copy.deepcopy(y) for y in elts[i_ + 1:]], ctx=ast.Load()), st.value)
                        if isinstance(st, ast.Assign):
                            s2.targets = copy.deepcopy(st.targets)
                        return s2
                    new = ast.copy_location(ast.If(test=x.test, body=[mk2(x.body)], orelse=[mk2(x.orelse)]), st)
                    ast.fix_missing_locations(new)
                    return self._stmt(new, modname, cname, stack, state)
                if not isinstance(x, ast.Constant):
                    break
        if isinstance(st, (ast.Assign, ast.Return)) and isinstance(getattr(st, "value", None), ast.IfExp):
            # N5: x = A if C else B  ->  if C: x = A else: x = B   (same for return); evaluation order is unchanged
            v = st.value

            def mk(val):
                s2 = copy.copy(st)
                s2.value = val
                if isinstance(st, ast.Assign):
                    s2.targets = copy.deepcopy(st.targets)
                return s2
            new = ast.copy_location(ast.If(test=v.test, body=[mk(v.body)], orelse=[mk(v.orelse)]), st)
            ast.fix_missing_locations(new)
            return self._stmt(new, modname, cname, stack, state)
        if isinstance(st, ast.Assign) and isinstance(st.value, ast.BoolOp) and isinstance(st.value.op, ast.Or) and len(st.value.values) == 2 \
                and _side_effect_free(st.value.values[0]) and len(st.targets) == 1 and isinstance(st.targets[0], ast.Name):
            # N6: x = A or B (A a plain name / attribute)  ->  if A: x = A else: x = B
            a, b = st.value.values
            s1, s2 = copy.copy(st), copy.copy(st)
            s1.value, s2.value = copy.deepcopy(a), b
            s1.targets, s2.targets = copy.deepcopy(st.targets), copy.deepcopy(st.targets)
            new = ast.copy_location(ast.If(test=a, body=[s1], orelse=[s2]), st)
            ast.fix_missing_locations(new)
            return self._stmt(new, modname, cname, stack, state)
        if isinstance(st, ast.Assign):
            split = _split_assign(st)
            if split is not None:
                out = []
                for s_ in split:
                    out += self._stmt(s_, modname, cname, stack, state)
                return out
            low = self._dict_get_lowering(st, modname, cname, state)
            if low is not None:
                return low
        if isinstance(st, (ast.Assign, ast.Return)) and isinstance(st.value, ast.Call) and len(st.value.args) == 3 and not st.value.keywords \
                and ast.unparse(st.value.func) in ("functools.reduce", "reduce") and isinstance(st.value.args[0], ast.Lambda):
            # N40: x = functools.reduce(lambda acc, item: E, XS, INIT)  ->  acc = INIT; for item in XS: acc = E; x = acc
            lam, xs, init = st.value.args
            la = lam.args
            if len(la.args) == 2 and not (la.vararg or la.kwarg or la.kwonlyargs or la.defaults or la.posonlyargs):
                self.counter += 1
                names = {}
                for a_ in la.args:
                    names[a_.arg] = a_.arg if a_.arg not in state["locals"] else f"{a_.arg}__red{self.counter}"
                body = _Rename({k_: v_ for k_, v_ in names.items() if k_ != v_}).visit(copy.deepcopy(lam.body)) if any(k_ != v_ for k_, v_ in names.items()) else lam.body
                acc, item = (names[a_.arg] for a_ in la.args)
                state["locals"] |= {acc, item}
                a0 = ast.Assign(targets=[ast.Name(id=acc, ctx=ast.Store())], value=init, type_comment=None)
                step = ast.Assign(targets=[ast.Name(id=acc, ctx=ast.Store())], value=body, type_comment=None)
                loop = ast.For(target=ast.Name(id=item, ctx=ast.Store()), iter=xs, body=[step], orelse=[], type_comment=None)
                st.value = ast.copy_location(ast.Name(id=acc, ctx=ast.Load()), st.value)
                for o in (a0, step, loop):
                    ast.copy_location(o, st)
                    ast.fix_missing_locations(o)
                self.lowered.append((state["caller"], getattr(st, "lineno", 0), "reduce"))
                out = []
                for s_ in (a0, loop, st):
                    out += self._stmt(s_, modname, cname, stack, state)
                return out
        if isinstance(st, (ast.Assign, ast.Return)) and isinstance(st.value, (ast.DictComp, ast.ListComp)):
            low = self._comp_lowering(st, modname, cname, stack, state)
            if low is not None:
                out = []
                for s_ in low:
                    out += self._stmt(s_, modname, cname, stack, state)
                return out
        if isinstance(st, (ast.Assign, ast.AnnAssign, ast.AugAssign, ast.Expr, ast.Return)):
            return self._hoist(st, "value", modname, cname, stack, state)
        if isinstance(st, ast.Raise) and st.exc is not None and st.cause is None:
            # `raise self._error_for(e)`: the helper chooses the exception
            return self._hoist(st, "exc", modname, cname, stack, state)
        return [st]

    def _generator_loop(self, st, modname, cname, stack, state):
        """N45: `for x in self._gen(a): B` over a helper that is a simple generator - statements, then one `for T in XS: ...; yield E` with the yield as
        the loop's last statement, nothing after it, no return - is the helper's body with `x = E; B` in the place of the yield: the lazy generator
        runs its statements interleaved with B in exactly that order."""
        call = st.iter
        f = call.func
        if any(isinstance(a, ast.Starred) for a in call.args) or any(k.arg is None for k in call.keywords):
            return None
        fd, qual, bound = None, None, False
        if isinstance(f, ast.Name) and f.id in self._closures:
            fd, qual = self._closures[f.id], (f"{modname}:{cname}.<{f.id}>" if cname else f"{modname}:<{f.id}>")
        elif isinstance(f, ast.Name):
            fd, qual = self.mod_funcs.get(modname, {}).get(f.id), f"{modname}:{f.id}"
        elif isinstance(f, ast.Attribute) and isinstance(f.value, ast.Name) and f.value.id in ("self", "cls", cname) and cname is not None:
            cdef = self.classes.get((modname, cname))
            fd = self._methods(cdef).get(f.attr) if cdef is not None else None
            qual = f"{modname}:{cname}.{f.attr}"
            if fd is not None:
                if self._overridden(modname, cname, f.attr):
                    return None
                static = any(isinstance(d, ast.Name) and d.id == "staticmethod" for d in fd.decorator_list)
                bound = not static
                if f.value.id != "self" and not static:
                    return None
        if fd is None or qual in self.known_f or qual in stack:
            return None
        own = []

        def collect(ss):
            for s_ in ss:
                if isinstance(s_, (ast.FunctionDef, ast.AsyncFunctionDef, ast.ClassDef)):
                    continue
                for n in ast.walk(s_) if not _child_lists(s_) else []:
                    if isinstance(n, (ast.Yield, ast.YieldFrom, ast.Return)):
                        own.append((s_, n))
                if _child_lists(s_):
                    for h_ in ([s_.test] if isinstance(s_, (ast.If, ast.While)) else []) + ([s_.iter] if isinstance(s_, ast.For) else []):
                        for n in ast.walk(h_):
                            if isinstance(n, (ast.Yield, ast.YieldFrom)):
                                own.append((s_, n))
                    for owner, fld in _child_lists(s_):
                        collect(getattr(owner, fld))
        collect(fd.body)
        if len(own) != 1 or not isinstance(own[0][1], ast.Yield) or own[0][1].value is None:
            return None
        ys, yn = own[0]
        if not (isinstance(ys, ast.Expr) and ys.value is yn and fd.body and isinstance(fd.body[-1], ast.For) and not fd.body[-1].orelse
                and fd.body[-1].body and fd.body[-1].body[-1] is ys):
            return None
        if any(isinstance(n, (ast.Lambda, ast.FunctionDef)) and n is not fd for n in ast.walk(fd)):
            return None
        fd2 = copy.deepcopy(fd)
        mark = "__gen_item__"
        y2 = fd2.body[-1].body[-1]
        fd2.body[-1].body[-1] = ast.copy_location(ast.Assign(targets=[ast.Name(id=mark, ctx=ast.Store())], value=y2.value.value, type_comment=None), y2)
        ast.fix_missing_locations(fd2)
        fd2._normalised = False
        if not self._inlinable_def(fd2):
            return None
        body = self._stmts(st.body, modname, cname, stack, state)
        r = self._inline(call, qual, fd2, bound, modname, cname, stack, state)
        if r is None:
            return None
        block, ret = r
        done = []

        def splice(ss):
            for i, s_ in enumerate(ss):
                if isinstance(s_, ast.Assign) and len(s_.targets) == 1 and isinstance(s_.targets[0], ast.Name) and s_.targets[0].id.startswith(mark):
                    a_ = ast.copy_location(ast.Assign(targets=[ast.Name(id=st.target.id, ctx=ast.Store())], value=s_.value, type_comment=None), st)
                    ast.fix_missing_locations(a_)
                    ss[i:i + 1] = [a_] + body
                    done.append(1)
                    return True
                for owner, fld in ([(s_, "prologue"), (s_, "body"), (s_, "epilogue")] if isinstance(s_, InlineBlock) else _child_lists(s_)):
                    if splice(getattr(owner, fld)):
                        return True
            return False
        if not splice(block.body):
            return None
        block.epilogue = []
        # the helper's trailing `<ret> = None` result is of no use
        block.body = [s_ for s_ in block.body if not (isinstance(s_, ast.Assign) and len(s_.targets) == 1 and isinstance(s_.targets[0], ast.Name) and s_.targets[0].id == ret
                                                      and isinstance(s_.value, ast.Constant) and s_.value.value is None)]
        self.lowered.append((state["caller"], getattr(st, "lineno", 0), "generator-loop"))
        return [block]

    def _hoist(self, st, field, modname, cname, stack, state):
        """Inline the first inlinable call of st.<field>; repeat on the rewritten statement."""
        expr = getattr(st, field, None)
        if expr is None or len(stack) > MAX_DEPTH:
            return [st]
        hit = self._first_call(expr, modname, cname, stack)
        if hit is None:
            return [st]
        call, (qual, fdef, bound) = hit
        blk = self._inline(call, qual, fdef, bound, modname, cname, stack, state)
        if blk is None:
            return [st]
        block, ret = blk
        # replace the call by the result name inside the statement
        if isinstance(st, ast.Expr) and st.value is call:
            block.epilogue = []
        else:
            class _Rep(ast.NodeTransformer):
                def visit_Call(s, node):
                    if node is call:
                        return ast.copy_location(ast.Name(id=ret, ctx=ast.Load()), node)
                    s.generic_visit(node)
                    return node
            setattr(st, field, _Rep().visit(expr))
            block.epilogue = self._stmt(st, modname, cname, stack, state) if not isinstance(st, (ast.If, ast.For, ast.While)) \
                else self._hoist(st, field, modname, cname, stack, state)
        return [block]

    def _inline(self, call, qual, fdef, bound, modname, cname, stack, state):
        self.counter += 1
        k = self.counter
        helper = copy.deepcopy(fdef)
        helper._normalised = False
        # the helper's own helpers first (with the extended stack)
        hname = fdef.name.strip("_")
        hcls = qual.split(":")[1].split(".")[0] if "." in qual.split(":")[1] else None
        _CmpCanon(self._hexfuncs(modname)).visit(helper)
        _propagate_bools(helper)
        helper.body = _sink_returns(helper.body)
        sub_state = {"locals": _local_names(helper), "caller": qual, "module": modname, "root": helper}
        # a local closure shares its enclosing function's other closures (`error()` called from `parse_integer()`)
        outer_closures = self._closures
        self._closures = {n_: f_ for n_, f_ in outer_closures.items() if f_ is not fdef} if any(f_ is fdef for f_ in outer_closures.values()) else {}
        helper.body = self._stmts(helper.body, modname, hcls, stack + (qual,), sub_state)
        self._closures = outer_closures
        params = [a.arg for a in helper.args.args]
        if bound:
            if not params:
                return None
            selfname = params[0]
            params = params[1:]
            if selfname == "cls" and any(isinstance(d, ast.Name) and d.id == "classmethod" for d in fdef.decorator_list):
                # a class method called on the instance: what it reads through `cls` (class constants, other class / static methods) the instance
                # reaches through `self` as well
                if not (isinstance(call.func, ast.Attribute) and isinstance(call.func.value, ast.Name) and call.func.value.id == "cls"):
                    helper = _Rename({"cls": "self"}).visit(helper)
            elif selfname != "self":
                return None
        # argument binding
        binding = {}
        for p, a in zip(params, call.args):
            binding[p] = a
        if len(call.args) > len(params):
            return None
        for kw in call.keywords:
            if kw.arg not in params or kw.arg in binding:
                return None
            binding[kw.arg] = kw.value
        defaults = helper.args.defaults
        for p, d in zip(params[len(params) - len(defaults):], defaults):
            binding.setdefault(p, d)
        for p, d in zip([a.arg for a in helper.args.kwonlyargs], helper.args.kw_defaults):
            params.append(p)
            for kw in call.keywords:
                if kw.arg == p:
                    binding[p] = kw.value
            if p not in binding and d is not None:
                binding[p] = d
        if any(p not in binding for p in params):
            return None
        nonlocals = {nm_ for n_ in ast.walk(helper) if isinstance(n_, ast.Nonlocal) for nm_ in n_.names}
        if nonlocals:
            helper.body = [s_ for s_ in helper.body if not isinstance(s_, ast.Nonlocal)] or [ast.copy_location(ast.Pass(), helper)]
        hl = _local_names(helper) - ({"self", selfname} if bound else set()) - nonlocals
        assigned = set()
        for n in ast.walk(ast.Module(body=helper.body, type_ignores=[])):
            if isinstance(n, ast.Name) and isinstance(n.ctx, (ast.Store, ast.Del)):
                assigned.add(n.id)
        used_in_args = {n.id for a in binding.values() for n in ast.walk(a) if isinstance(n, ast.Name)}
        ren = {}
        aliased = set()
        for nm in sorted(hl):
            identity = nm in binding and isinstance(binding[nm], ast.Name) and binding[nm].id == nm and nm not in assigned
            if not identity and nm in binding and isinstance(binding[nm], ast.Name) and binding[nm].id == nm and state.get("root") is not None:
                # the helper re-binds a parameter that is bound to the caller's variable of the same name, and the caller never looks at that variable
                # again (its only reads are this call's arguments, outside any loop): the helper may as well work on the caller's variable
                root_ = state["root"]
                in_call = {id(x) for x in ast.walk(call)}
                loads_ = [x for x in ast.walk(root_) if isinstance(x, ast.Name) and x.id == nm and isinstance(x.ctx, ast.Load)]
                if loads_ and all(id(x) in in_call for x in loads_) and not any(isinstance(x, (ast.For, ast.While, ast.AsyncFor, ast.Lambda, ast.ListComp, ast.GeneratorExp,
                                                                                                 ast.DictComp, ast.SetComp)) for x in ast.walk(root_)) \
                        and sum(1 for x in ast.walk(call) if isinstance(x, ast.Name) and x.id == nm) == 1:
                    identity = True
            if identity:
                continue
            # a parameter bound to a plain local of the caller that neither side re-binds is that local under another name
            if nm in binding and isinstance(binding[nm], ast.Name) and nm not in assigned and binding[nm].id not in assigned \
                    and binding[nm].id not in hl and binding[nm].id not in ("self", "cls"):
                ren[nm] = binding[nm].id
                aliased.add(nm)
                continue
            if nm in state["locals"] or nm in used_in_args:
                ren[nm] = f"{nm}__{hname}{k}"
        ret = f"_ret_{hname}{k}"
        # a parameter that the helper never re-binds and that is given a constant or a constant path (Cmd.UNLOCK, self.CMD.X) is that constant
        consts_ = {}
        for nm in params:
            if nm in binding and nm not in assigned and nm not in aliased and (_is_const(binding[nm]) or _stable_path(binding[nm])
                                                                              or self._const_via_member(binding[nm], modname, cname)):
                consts_[nm] = binding[nm]
        if consts_:
            helper.body = _prune_const_ifs([_ConstSub(consts_).visit(s) for s in helper.body])
        body = [_Rename(ren).visit(s) for s in helper.body]
        newbody = []
        rr = _ReturnRewriter(ret)
        for s in body:
            r = rr.visit(s)
            newbody += r if isinstance(r, list) else [r]
        if not newbody or not _ends_flow(newbody):
            tail = ast.Assign(targets=[ast.Name(id=ret, ctx=ast.Store())], value=ast.Constant(value=None), type_comment=None)
            ast.copy_location(tail, call)
            ast.fix_missing_locations(tail)
            newbody.append(tail)
        prologue = []
        for p in params:
            a = binding[p]
            tgt = ren.get(p, p)
            if isinstance(a, ast.Name) and a.id == tgt:
                continue
            if p in aliased or p in consts_:
                continue
            asg = ast.Assign(targets=[ast.Name(id=tgt, ctx=ast.Store())], value=copy.deepcopy(a) if a in defaults else a, type_comment=None)
            ast.copy_location(asg, call)
            ast.fix_missing_locations(asg)
            prologue.append(asg)
        blk = InlineBlock(prologue=prologue, body=newbody, epilogue=[])
        ast.copy_location(blk, call)
        blk.helper = qual
        blk.ret = ret
        blk.call = call
        state["locals"] |= {ren.get(n, n) for n in hl} | {ret}
        self.inlined.append((state["caller"], qual))
        return blk, ret

    def _is_suppress(self, e, modname):
        if not (isinstance(e, ast.Call) and e.args and not e.keywords and not any(isinstance(a, ast.Starred) for a in e.args)):
            return False
        tree = self.modules[modname].tree
        if isinstance(e.func, ast.Name):
            for st in tree.body:
                if isinstance(st, ast.ImportFrom) and st.module == "contextlib" and any(a.name == "suppress" and (a.asname or a.name) == e.func.id for a in st.names):
                    return True
            return False
        if isinstance(e.func, ast.Attribute) and e.func.attr == "suppress" and isinstance(e.func.value, ast.Name):
            for st in tree.body:
                if isinstance(st, ast.Import) and any(a.name == "contextlib" and (a.asname or a.name) == e.func.value.id for a in st.names):
                    return True
        return False

    # -- N16 -----------------------------------------------------------------------------
    def _for_else(self, st, state):
        """for v in range(N): B  else: E   ->   v = 0; while True: if v == N: E; break;  B;  v += 1
        (N a constant path or plain name evaluated once by range() and not re-bound in B; no `continue` in B; v read nowhere outside the loop)"""
        it = st.iter
        if not (isinstance(it, ast.Call) and isinstance(it.func, ast.Name) and it.func.id == "range" and len(it.args) == 1 and not it.keywords
                and isinstance(st.target, ast.Name) and (_side_effect_free(it.args[0]) or isinstance(it.args[0], ast.Constant))):
            return None
        v, n = st.target.id, it.args[0]
        own = []

        def loop_level(stmts):
            for x in stmts:
                if isinstance(x, (ast.For, ast.While, ast.AsyncFor, ast.FunctionDef, ast.AsyncFunctionDef, ast.ClassDef)):
                    continue
                if isinstance(x, ast.Continue):
                    own.append(x)
                for f in ("body", "orelse", "finalbody"):
                    loop_level(getattr(x, f, []) or [])
                for h in getattr(x, "handlers", []) or []:
                    loop_level(h.body)
        loop_level(st.body)
        if own:
            return None
        nnames = {x.id for x in ast.walk(n) if isinstance(x, ast.Name)}
        for x in ast.walk(ast.Module(body=st.body, type_ignores=[])):
            if isinstance(x, ast.Name) and isinstance(x.ctx, (ast.Store, ast.Del)) and (x.id == v or x.id in nnames):
                return None
        root = state.get("root")
        if root is None:
            return None
        inside = {id(x) for x in ast.walk(st)}
        for x in ast.walk(root):
            if isinstance(x, ast.Name) and x.id == v and id(x) not in inside:
                return None
        init = ast.Assign(targets=[ast.Name(id=v, ctx=ast.Store())], value=ast.Constant(value=0), type_comment=None)
        test = ast.If(test=ast.Compare(left=ast.Name(id=v, ctx=ast.Load()), ops=[ast.Eq()], comparators=[copy.deepcopy(n)]),
                      body=list(st.orelse) + ([] if _ends_flow(st.orelse) else [ast.Break()]), orelse=[])
        inc = ast.AugAssign(target=ast.Name(id=v, ctx=ast.Store()), op=ast.Add(), value=ast.Constant(value=1))
        loop = ast.While(test=ast.Constant(value=True), body=[test] + list(st.body) + [inc], orelse=[])
        for o in (init, loop, test, inc):
            ast.copy_location(o, st)
            ast.fix_missing_locations(o)
        return [init, loop]

    # -- N13 -----------------------------------------------------------------------------
    def _comp_lowering(self, st, modname, cname, stack, state):
        """x = {K: V for t in IT if C} whose K / V calls a helper that is inlined  ->  acc = {}; for t in IT: if C: acc[K] = V; x = acc
        (same for list comprehensions with acc.append(E)); comprehensions without such calls keep their canonical ELEM(..) forms."""
        comp = st.value
        parts = [comp.key, comp.value] if isinstance(comp, ast.DictComp) else [comp.elt]
        if not any(self._first_call(p, modname, cname, stack) is not None for p in parts):
            return None
        tnames = {n.id for g_ in comp.generators for n in ast.walk(g_.target) if isinstance(n, ast.Name)}
        if any(g_.is_async for g_ in comp.generators):
            return None
        self.counter += 1
        acc = f"_comp{self.counter}"
        clash = tnames & state["locals"]
        if clash:
            # the comprehension's own variables live in their own scope: as loop variables of the function they get fresh names
            ren = {n: f"{n}__comp{self.counter}" for n in clash}
            r_ = _Rename(ren)
            for gi_, g_ in enumerate(comp.generators):
                g_.target = r_.visit(g_.target)
                g_.ifs = [r_.visit(c) for c in g_.ifs]
                if gi_ > 0:
                    g_.iter = r_.visit(g_.iter)
            if isinstance(comp, ast.DictComp):
                comp.key, comp.value = r_.visit(comp.key), r_.visit(comp.value)
            else:
                comp.elt = r_.visit(comp.elt)
            tnames = {ren.get(n, n) for n in tnames}
        if isinstance(comp, ast.DictComp):
            inner = ast.Assign(targets=[ast.Subscript(value=ast.Name(id=acc, ctx=ast.Load()), slice=comp.key, ctx=ast.Store())], value=comp.value, type_comment=None)
            init = ast.Dict(keys=[], values=[])
        else:
            inner = ast.Expr(value=ast.Call(func=ast.Attribute(value=ast.Name(id=acc, ctx=ast.Load()), attr="append", ctx=ast.Load()), args=[comp.elt], keywords=[]))
            init = ast.List(elts=[], ctx=ast.Load())
        body = [inner]
        for g_ in reversed(comp.generators):
            for c in reversed(g_.ifs):
                body = [ast.If(test=c, body=body, orelse=[])]
            body = [ast.For(target=g_.target, iter=g_.iter, body=body, orelse=[], type_comment=None)]
        first = ast.Assign(targets=[ast.Name(id=acc, ctx=ast.Store())], value=init, type_comment=None)
        st.value = ast.Name(id=acc, ctx=ast.Load())
        out = [first] + body + [st]
        for o in out:
            ast.copy_location(o, st)
            ast.fix_missing_locations(o)
        state["locals"] |= tnames | {acc}
        self.lowered.append((state["caller"], getattr(st, "lineno", 0), "comprehension"))
        return out

    # -- N11 -----------------------------------------------------------------------------
    def _walrus_if(self, st):
        """if A or C[(x := E)]: S else: O  ->  if A: S  else: x = E; if C[x]: S else: O      (and dually for `and`);
        if C[(x := E)] with only pure, x-free code evaluated before the walrus  ->  x = E; if C[x]"""
        t = st.test
        if isinstance(t, ast.BoolOp) and len(t.values) >= 2 and not any(isinstance(n, ast.NamedExpr) for v in t.values[:-1] for n in ast.walk(v)):
            head = t.values[0] if len(t.values) == 2 else ast.copy_location(ast.BoolOp(op=t.op, values=t.values[:-1]), t)
            inner = ast.copy_location(ast.If(test=t.values[-1], body=st.body, orelse=st.orelse), st)
            if isinstance(t.op, ast.Or):
                new = ast.copy_location(ast.If(test=head, body=copy.deepcopy(st.body), orelse=[inner]), st)
            else:
                new = ast.copy_location(ast.If(test=head, body=[inner], orelse=copy.deepcopy(st.orelse)), st)
            ast.fix_missing_locations(new)
            return [new]
        if isinstance(t, ast.BoolOp):
            return None
        ws = [n for n in ast.walk(t) if isinstance(n, ast.NamedExpr)]
        if len(ws) != 1 or not isinstance(ws[0].target, ast.Name):
            return None
        w = ws[0]
        x = w.target.id
        # everything in the test except the walrus' own value must be pure and must not read x before... (x is read only after the walrus: reject any other use)
        others = [n for n in ast.walk(t) if isinstance(n, ast.Name) and n.id == x and n is not w.target]
        if others:
            return None
        for n in ast.walk(t):
            if isinstance(n, ast.Call) and not (isinstance(n.func, ast.Name) and n.func.id in ("len", "int", "bytes", "type", "isinstance", "bool", "str", "abs", "min", "max")):
                return None
            if isinstance(n, (ast.BoolOp, ast.IfExp, ast.Lambda, ast.ListComp, ast.SetComp, ast.DictComp, ast.GeneratorExp, ast.Await, ast.Yield)):
                return None
        asg = ast.copy_location(ast.Assign(targets=[ast.Name(id=x, ctx=ast.Store())], value=w.value, type_comment=None), st)

        class R(ast.NodeTransformer):
            def visit_NamedExpr(s_, node):
                if node is w:
                    return ast.copy_location(ast.Name(id=x, ctx=ast.Load()), node)
                return node
        st.test = R().visit(t)
        ast.fix_missing_locations(asg)
        ast.fix_missing_locations(st)
        return [asg, st]

    # -- N9 ------------------------------------------------------------------------------
    def _dict_get_lowering(self, st, modname, cname, state):
        """x = D.get(K[, d]) with D a small constant dict display (class / module level, not a reference constant) and K a pure expression
        ->  if K == k1: x = v1  elif K == k2: x = v2 ... else: x = d   (dict lookup on hashable constants is equality with a key)"""
        if not (isinstance(st, ast.Assign) and len(st.targets) == 1 and isinstance(st.targets[0], ast.Name)):
            return None
        c = st.value
        if not (isinstance(c, ast.Call) and isinstance(c.func, ast.Attribute) and c.func.attr == "get" and 1 <= len(c.args) <= 2 and not c.keywords):
            return None
        base = c.func.value
        disp = None
        if isinstance(base, ast.Name):
            disp = self._module_display(modname, base.id)
        elif isinstance(base, ast.Attribute) and isinstance(base.value, ast.Name):
            owner = base.value.id
            cd = None
            if owner in ("self", "cls") and cname is not None:
                cd = self.classes.get((modname, cname))
                owner = cname
            elif (modname, owner) in self.classes:
                cd = self.classes[(modname, owner)]
            if cd is not None and f"{modname}:{owner}.{base.attr}" not in self.known_c:
                src = None
                for s_ in cd.body:
                    if isinstance(s_, ast.Assign) and any(isinstance(t, ast.Name) and t.id == base.attr for t in s_.targets):
                        src = s_.value if src is None else False
                # never re-bound or mutated through an attribute anywhere in the module
                for n in ast.walk(self.modules[modname].tree):
                    if isinstance(n, ast.Attribute) and n.attr == base.attr and isinstance(n.ctx, (ast.Store, ast.Del)):
                        src = False
                    if isinstance(n, ast.Subscript) and isinstance(n.ctx, (ast.Store, ast.Del)) and isinstance(n.value, ast.Attribute) and n.value.attr == base.attr:
                        src = False
                if isinstance(src, ast.Dict) and not self._descendants(owner):
                    disp = src
        if not isinstance(disp, ast.Dict) or not (1 <= len(disp.keys) <= 6) or any(k is None for k in disp.keys):
            return None
        if not all(_side_effect_free(k) for k in disp.keys) or not all(_side_effect_free(v) for v in disp.values):
            return None
        if len({ast.dump(k) for k in disp.keys}) != len(disp.keys):
            return None
        key = c.args[0]
        pure = _side_effect_free(key) or (isinstance(key, ast.Call) and isinstance(key.func, ast.Name) and key.func.id in ("type", "len", "int", "str")
                                          and len(key.args) == 1 and not key.keywords and _side_effect_free(key.args[0]))
        dflt = c.args[1] if len(c.args) == 2 else ast.Constant(value=None)
        if not pure or not _side_effect_free(dflt):
            return None

        def asg(v):
            a = ast.Assign(targets=[copy.deepcopy(st.targets[0])], value=copy.deepcopy(v), type_comment=None)
            return ast.copy_location(a, st)
        node = [asg(dflt)]
        for k, v in reversed(list(zip(disp.keys, disp.values))):
            test = ast.Compare(left=copy.deepcopy(key), ops=[ast.Eq()], comparators=[copy.deepcopy(k)])
            node = [ast.copy_location(ast.If(test=test, body=[asg(v)], orelse=node), st)]
        ast.fix_missing_locations(node[0])
        self.lowered.append((state["caller"], getattr(st, "lineno", 0), "dict.get"))
        return node

    # -- N7 ------------------------------------------------------------------------------
    def _exc_rel(self, a, b):
        """Relation of exception classes named a and b: 'sub' (a is b or derives from it), 'disjoint' (no object is an instance of both,
        closed world: single inheritance chains of the repository's classes and the builtins), or None (b may derive from a / unknown)."""
        import builtins

        def chain(nm):
            out, seen = [nm], {nm}
            cur = nm
            while True:
                defs = self.by_bare.get(cur)
                if defs:
                    if len(defs) != 1:
                        return None
                    bases = self._base_names(defs[0][1])
                    if len(bases) != 1 or len(defs[0][1].bases) != 1:
                        return None
                    cur = bases[0]
                else:
                    o = getattr(builtins, cur, None)
                    if not (isinstance(o, type) and issubclass(o, BaseException)):
                        return None
                    mro = [c.__name__ for c in o.__mro__[1:] if c is not object]
                    if any(len(c.__bases__) > 1 for c in o.__mro__):
                        return None
                    return out + mro
                if cur in seen:
                    return None
                seen.add(cur)
                out.append(cur)
        ca, cb = chain(a), chain(b)
        if ca is None or cb is None:
            return None
        if b in ca:
            return "sub"
        if a in cb:
            return None
        # neither derives from the other; a common descendant would need multiple inheritance: look for one in the repository
        for (m, c), cd in self.classes.items():
            if len(cd.bases) > 1:
                bn = set(self._base_names(cd))
                anc = set()
                for x in bn:
                    anc |= set(chain(x) or [x])
                if a in anc and b in anc:
                    return None
        return "disjoint"

    def _module_display(self, modname, name):
        """the list / tuple / dict display a module-level name is bound to (exactly once, never mutated by name elsewhere in the module),
        unless the name is one of the reference constants"""
        if modname is None or f"{modname}:{name}" in self.known_c:
            return None
        src = None
        tree = self.modules[modname].tree
        for st in tree.body:
            if isinstance(st, ast.Assign) and any(isinstance(t, ast.Name) and t.id == name for t in st.targets):
                src = st.value if src is None else False
            elif isinstance(st, (ast.AugAssign, ast.AnnAssign)) and isinstance(st.target, ast.Name) and st.target.id == name:
                src = False
        if not isinstance(src, (ast.Tuple, ast.List, ast.Dict)):
            return None
        for n in ast.walk(tree):
            if isinstance(n, ast.Name) and n.id == name and isinstance(n.ctx, (ast.Store, ast.Del)) and n not in [t for st in tree.body if isinstance(st, ast.Assign) for t in st.targets]:
                return None
            if isinstance(n, ast.Global) and name in n.names:
                return None
        return src

    def _split_handlers(self, handlers, state):
        """N7: `except (A, B) as e: BODY` -> `except A as e: BODY_A` / `except B as e: BODY_B` (same order, so the same clause set matches),
        each body specialised by deciding `isinstance(e, T)` tests from the clause's own class and the classes of the clauses before it."""
        out = []
        earlier = []        # class names of the clauses above (an exception reaching this clause is an instance of none of them)
        for h in handlers:
            htype = h.type
            if isinstance(htype, ast.Name):
                # a module-level name bound once to a tuple display of class names stands for that display
                src = self._module_display(state.get("module"), htype.id)
                if isinstance(src, ast.Tuple):
                    htype = src
            if isinstance(htype, ast.Tuple) and htype.elts and all(isinstance(e, (ast.Name, ast.Attribute)) for e in htype.elts):
                types = [copy.deepcopy(e) for e in htype.elts] if htype is not h.type else list(htype.elts)
            else:
                types = [h.type]
            multi = len(types) > 1
            for t in types:
                tn = t.id if isinstance(t, ast.Name) else (t.attr if isinstance(t, ast.Attribute) else None)
                if multi:
                    nh = ast.ExceptHandler(type=t, name=h.name, body=copy.deepcopy(h.body))
                    ast.copy_location(nh, h)
                    nh._split_from = h
                else:
                    nh = h
                if h.name and tn and (multi or self._has_isinstance(nh.body, h.name)):
                    nh.body = self._specialise(nh.body, h.name, tn, list(earlier))
                out.append(nh)
                if tn:
                    earlier.append(tn)
            if multi:
                self.split_handlers.append((state["caller"], getattr(h, "lineno", 0), len(types)))
        return out

    @staticmethod
    def _has_isinstance(body, name):
        for n in ast.walk(ast.Module(body=body, type_ignores=[])):
            if isinstance(n, ast.Call) and isinstance(n.func, ast.Name) and n.func.id == "isinstance" and len(n.args) == 2 \
                    and isinstance(n.args[0], ast.Name):
                return True
        return False

    def _specialise(self, body, name, cls, earlier):
        # names that are plain copies of the caught exception (parameters of inlined helpers), never re-bound
        stores = {}
        for n in ast.walk(ast.Module(body=body, type_ignores=[])):
            if isinstance(n, ast.Name) and isinstance(n.ctx, (ast.Store, ast.Del)):
                stores.setdefault(n.id, []).append(n)
        if name in stores:
            return body
        alias = {name}
        changed = True
        while changed:
            changed = False
            for n in ast.walk(ast.Module(body=body, type_ignores=[])):
                if isinstance(n, ast.Assign) and len(n.targets) == 1 and isinstance(n.targets[0], ast.Name) and isinstance(n.value, ast.Name) \
                        and n.value.id in alias and n.targets[0].id not in alias and len(stores.get(n.targets[0].id, [])) == 1:
                    alias.add(n.targets[0].id)
                    changed = True
        norm = self

        def decide(tnode):
            ts = tnode.elts if isinstance(tnode, ast.Tuple) else [tnode]
            res = []
            for t in ts:
                tn = t.id if isinstance(t, ast.Name) else (t.attr if isinstance(t, ast.Attribute) else None)
                if tn is None:
                    return None
                r = norm._exc_rel(cls, tn)
                if r == "sub":
                    return True
                if r == "disjoint" or any(norm._exc_rel(tn, e) == "sub" for e in earlier):
                    res.append(False)
                else:
                    res.append(None)
            return False if all(x is False for x in res) else None

        class T(ast.NodeTransformer):
            def visit_Call(s, node):
                s.generic_visit(node)
                if isinstance(node.func, ast.Name) and node.func.id == "isinstance" and len(node.args) == 2 and not node.keywords \
                        and isinstance(node.args[0], ast.Name) and node.args[0].id in alias:
                    d = decide(node.args[1])
                    if d is not None:
                        return ast.copy_location(ast.Constant(value=d), node)
                return node

            def visit_UnaryOp(s, node):
                s.generic_visit(node)
                if isinstance(node.op, ast.Not) and isinstance(node.operand, ast.Constant) and isinstance(node.operand.value, bool):
                    return ast.copy_location(ast.Constant(value=not node.operand.value), node)
                return node

            def visit_BoolOp(s, node):
                s.generic_visit(node)
                vals = []
                for v in node.values:
                    if isinstance(v, ast.Constant) and isinstance(v.value, bool):
                        if isinstance(node.op, ast.And) and v.value is False and all(_side_effect_free(x) or isinstance(x, ast.Constant) for x in vals):
                            return ast.copy_location(ast.Constant(value=False), node)
                        if isinstance(node.op, ast.Or) and v.value is True and all(_side_effect_free(x) or isinstance(x, ast.Constant) for x in vals):
                            return ast.copy_location(ast.Constant(value=True), node)
                        if (isinstance(node.op, ast.And) and v.value is True) or (isinstance(node.op, ast.Or) and v.value is False):
                            if v is not node.values[-1] or vals:
                                continue
                    vals.append(v)
                if not vals:
                    return ast.copy_location(ast.Constant(value=isinstance(node.op, ast.And)), node)
                if len(vals) == 1:
                    return vals[0]
                node.values = vals
                return node
        body = [T().visit(st) for st in body]
        return _prune_const_ifs(body)

    # -- N2 ------------------------------------------------------------------------------
    def _const_display(self, it, modname, cname, local_displays=None):
        if isinstance(it, (ast.List, ast.Tuple)):
            return it
        if isinstance(it, ast.Call) and isinstance(it.func, ast.Name) and it.func.id == "range" and len(it.args) == 1 and not it.keywords \
                and isinstance(it.args[0], ast.Constant) and isinstance(it.args[0].value, int) and not isinstance(it.args[0].value, bool) \
                and 0 < it.args[0].value <= 4:
            # range(3): the three indices (a small literal count only)
            return ast.List(elts=[ast.Constant(value=i_) for i_ in range(it.args[0].value)], ctx=ast.Load())
        if isinstance(it, ast.Name) and local_displays and it.id in local_displays:
            return local_displays[it.id]
        if isinstance(it, ast.Call) and isinstance(it.func, ast.Name) and it.func.id == "zip" and len(it.args) >= 2 and not it.keywords:
            ds = [self._const_display(a, modname, cname, local_displays) for a in it.args]
            if all(d is not None for d in ds) and len({len(d.elts) for d in ds}) == 1:
                return ast.List(elts=[ast.Tuple(elts=[d.elts[i] for d in ds], ctx=ast.Load()) for i in range(len(ds[0].elts))], ctx=ast.Load())
            return None
        if isinstance(it, ast.Call) and isinstance(it.func, ast.Name) and it.func.id == "enumerate" and 1 <= len(it.args) <= 2 and not it.keywords:
            d = self._const_display(it.args[0], modname, cname, local_displays)
            start = it.args[1].value if len(it.args) == 2 and isinstance(it.args[1], ast.Constant) and isinstance(it.args[1].value, int) else (0 if len(it.args) == 1 else None)
            if d is not None and start is not None:
                return ast.List(elts=[ast.Tuple(elts=[ast.Constant(value=start + i), e], ctx=ast.Load()) for i, e in enumerate(d.elts)], ctx=ast.Load())
            return None
        q = None
        if isinstance(it, ast.Name):
            q = f"{modname}:{it.id}"
            src = None
            for st in self.modules[modname].tree.body:
                if isinstance(st, ast.Assign) and any(isinstance(t, ast.Name) and t.id == it.id for t in st.targets):
                    src = st.value if src is None else False
        elif isinstance(it, ast.Attribute) and isinstance(it.value, ast.Name) and cname is not None and it.value.id in ("self", "cls", cname):
            q = f"{modname}:{cname}.{it.attr}"
            src = None
            cdef = self.classes.get((modname, cname))
            for st in (cdef.body if cdef else []):
                if isinstance(st, ast.Assign) and any(isinstance(t, ast.Name) and t.id == it.attr for t in st.targets):
                    src = st.value if src is None else False
        else:
            return None
        if q in self.known_c or not isinstance(src, (ast.List, ast.Tuple)):
            return None
        return src

    def _comp_displays(self, fdef, modname, cname, state):
        """N25: a comprehension over a constant display of constants is the display it builds:
        `{f: s[f] for f in ("a", "b")}` -> `{"a": s["a"], "b": s["b"]}` (one generator, no condition; the element expressions are evaluated in
        the same order either way)."""
        me = self

        class T(ast.NodeTransformer):
            def visit_FunctionDef(s_, node):
                if node is fdef:
                    s_.generic_visit(node)
                return node
            visit_AsyncFunctionDef = visit_FunctionDef

            def visit_Lambda(s_, node):
                return node

            def _comp(s_, node):
                s_.generic_visit(node)
                if len(node.generators) != 1:
                    return node
                g = node.generators[0]
                if g.ifs or g.is_async:
                    return node
                disp = me._const_display(g.iter, modname, cname, state.get("displays"))
                if disp is None or not (1 <= len(disp.elts) <= MAX_UNROLL) or any(isinstance(e, ast.Starred) for e in disp.elts):
                    return node
                binds = [_const_binding(g.target, e) for e in disp.elts]
                if any(b is None for b in binds):
                    # items that are plain names / constant paths (not bound by the comprehension itself) take the place of the loop variables too
                    bound_here = {x.id for x in ast.walk(g.target) if isinstance(x, ast.Name)}
                    binds = []
                    for e in disp.elts:
                        pairs = _flat_pairs(g.target, e)
                        if not pairs or not all(_is_const(v) or _stable_path(v) or (isinstance(v, ast.Name) and v.id not in bound_here) for _, v in pairs):
                            return node
                        binds.append(dict(pairs))
                if isinstance(node, ast.DictComp):
                    ks = [_ConstSub(b).visit(copy.deepcopy(node.key)) for b in binds]
                    vs = [_ConstSub(b).visit(copy.deepcopy(node.value)) for b in binds]
                    # a repeated key would make the display differ from the comprehension only in evaluation count, not in result; keep it simple
                    if len({ast.dump(k) for k in ks}) != len(ks):
                        return node
                    new = ast.Dict(keys=ks, values=vs)
                else:
                    es = [_ConstSub(b).visit(copy.deepcopy(node.elt)) for b in binds]
                    new = ast.Set(elts=es) if isinstance(node, ast.SetComp) else ast.List(elts=es, ctx=ast.Load())
                ast.copy_location(new, node)
                ast.fix_missing_locations(new)
                me.lowered.append((state["caller"], getattr(node, "lineno", 0), "comprehension-display"))
                return new
            visit_DictComp = visit_ListComp = visit_SetComp = _comp
        T().visit(fdef)

    def _unroll(self, st, modname, cname, state):
        if isinstance(st, ast.AsyncFor) or st.orelse:
            return None
        disp = self._const_display(st.iter, modname, cname, state.get("displays"))
        if disp is None or len(disp.elts) > MAX_UNROLL or any(isinstance(e, ast.Starred) for e in disp.elts):
            return None
        # `break` of this loop (not of a loop nested in it): the unrolled copies become a block whose breaks jump to its end; `continue` is not handled
        breaks = []

        def scan(ss, own=True):
            for s_ in ss:
                if isinstance(s_, ast.Continue) and own:
                    return False
                if isinstance(s_, ast.Break) and own:
                    breaks.append(s_)
                if isinstance(s_, (ast.FunctionDef, ast.AsyncFunctionDef, ast.ClassDef)):
                    continue
                inner = isinstance(s_, (ast.For, ast.While, ast.AsyncFor))
                if inner and any(isinstance(x, ast.Continue) for x in ast.walk(s_)) and not own:
                    pass
                subs = [(s_, "prologue"), (s_, "body"), (s_, "epilogue")] if isinstance(s_, InlineBlock) else _child_lists(s_)
                for owner, f in subs:
                    if not scan(getattr(owner, f), own and not (inner and f == "body")):
                        return False
                for h in getattr(s_, "handlers", []) or []:
                    if not scan(h.body, own):
                        return False
            return True
        if not scan(st.body):
            return None
        if breaks and any(isinstance(x, (InlineJump, ast.For, ast.While, ast.AsyncFor)) for s_ in st.body for x in ast.walk(s_)):
            # (bound: a body with loops of its own is left as a loop - its copies would each need their own loop summary)
            return None
        out = []
        stored = {n.id for n in ast.walk(ast.Module(body=st.body, type_ignores=[]))
                  if isinstance(n, ast.Name) and isinstance(n.ctx, (ast.Store, ast.Del))}
        for e in disp.elts:
            m = _const_binding(st.target, e)
            if m is not None and not (set(m) & stored):
                # constant items: substitute them for the loop variables
                for s in copy.deepcopy(st.body):
                    out.append(_ConstSub(m).visit(s))
                continue
            pairs = _flat_pairs(st.target, e)
            tnames = {t for t, _ in pairs} if pairs else set()
            def method_ref(v):
                # self.<method of this class, never re-bound as an instance attribute>: the bound method itself
                if not (isinstance(v, ast.Attribute) and isinstance(v.value, ast.Name) and v.value.id == "self" and cname is not None):
                    return False
                cdef = self.classes.get((modname, cname))
                if cdef is None or v.attr not in self._methods(cdef):
                    return False
                if any(isinstance(x, ast.Attribute) and x.attr == v.attr and isinstance(x.ctx, (ast.Store, ast.Del)) for x in ast.walk(cdef)):
                    return False
                self._renorm = True     # the calls through the loop variable are calls of known methods now: normalise the copies again
                return True
            if pairs and len(tnames) == len(pairs) and all(_side_effect_free(v) or _is_const(v) for _, v in pairs) \
                    and not any(isinstance(n, ast.Name) and n.id in tnames for _, v in pairs for n in ast.walk(v)):
                # element-wise: constants and constant paths (self.UPPER.CASE chains) take the place of the loop variable, the rest is assigned
                m, pre = {}, []
                for t, v in pairs:
                    if (_is_const(v) or _stable_path(v) or (isinstance(v, ast.Name) and v.id not in stored) or method_ref(v)) and t not in stored:
                        m[t] = v
                    else:
                        a = ast.Assign(targets=[ast.Name(id=t, ctx=ast.Store())], value=copy.deepcopy(v), type_comment=None)
                        ast.copy_location(a, st)
                        ast.fix_missing_locations(a)
                        pre.append(a)
                out += pre
                for s in copy.deepcopy(st.body):
                    out.append(_ConstSub(m).visit(s) if m else s)
                continue
            asg = ast.Assign(targets=[copy.deepcopy(st.target)], value=copy.deepcopy(e), type_comment=None)
            ast.copy_location(asg, st)
            ast.fix_missing_locations(asg)
            out.append(asg)
            out += copy.deepcopy(st.body)
        self.unrolled.append((state["caller"], getattr(st, "lineno", 0), len(disp.elts)))
        # setattr / getattr whose name became a constant by the substitution are attribute stores / loads now (N3)
        out = [_AttrCalls().visit(s_) for s_ in out]
        if breaks:
            self.counter += 1
            ret = f"_brk{self.counter}"

            class _Brk(ast.NodeTransformer):
                def __init__(s_):
                    s_.depth = 0

                def visit_FunctionDef(s_, node):
                    return node
                visit_AsyncFunctionDef = visit_Lambda = visit_ClassDef = visit_FunctionDef

                def _loop(s_, node):
                    s_.depth += 1
                    node.body = [y for x in node.body for y in (lambda r: r if isinstance(r, list) else [r])(s_.visit(x))]
                    s_.depth -= 1
                    node.orelse = [y for x in node.orelse for y in (lambda r: r if isinstance(r, list) else [r])(s_.visit(x))]
                    return node
                visit_For = visit_While = visit_AsyncFor = _loop

                def visit_Break(s_, node):
                    if s_.depth:
                        return node
                    j = ast.copy_location(InlineJump(), node)
                    j.ret = ret
                    return j
            tr = _Brk()
            body = []
            for s_ in out:
                r = tr.visit(s_)
                body += r if isinstance(r, list) else [r]
            body = _truncate_dead(_prune_const_ifs(body))

            def fold(ss):
                """`if C: <jump>` followed by REST (and the block's end) is `if not C: REST`"""
                ss = list(ss)
                if ss and isinstance(ss[-1], InlineJump):
                    ss = ss[:-1]
                for i_, s_ in enumerate(ss):
                    if isinstance(s_, ast.If) and not s_.orelse and len(s_.body) == 1 and isinstance(s_.body[0], InlineJump):
                        rest = fold(ss[i_ + 1:])
                        if rest is None:
                            return None
                        neg = _negate(s_.test)
                        if neg is None:
                            neg = ast.copy_location(ast.UnaryOp(op=ast.Not(), operand=s_.test), s_.test)
                        new_if = ast.copy_location(ast.If(test=neg, body=rest or [ast.copy_location(ast.Pass(), s_)], orelse=[]), s_)
                        ast.fix_missing_locations(new_if)
                        return ss[:i_] + [new_if]
                    if any(isinstance(x, InlineJump) for x in ast.walk(s_)):
                        return None
                return ss
            flat = fold(body)
            if flat is not None:
                return flat
            blk = InlineBlock(prologue=[], body=body, epilogue=[])
            ast.copy_location(blk, st)
            blk.helper, blk.ret, blk.call = "<loop>", ret, None
            return _flatten_blocks([blk])
        return out
