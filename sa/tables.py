"""TABLES - extraction of constants from the firmware C sources and from the
Markdown protocol documents (tokenizer level; comments and strings stripped)."""
import os
import re
from .model import AnalysisError


def _strip_c(src):
    # remove comments, keep line structure; join preprocessor continuations
    src = src.replace("\\\n", " ")
    out = []
    i = 0
    n = len(src)
    while i < n:
        c = src[i]
        if src.startswith("/*", i):
            j = src.find("*/", i + 2)
            j = n if j < 0 else j + 2
            out.append("\n" * src.count("\n", i, j))
            i = j
        elif src.startswith("//", i):
            j = src.find("\n", i)
            j = n if j < 0 else j
            i = j
        elif c == '"':
            j = i + 1
            while j < n and src[j] != '"':
                j += 2 if src[j] == "\\" else 1
            out.append(src[i:j + 1])
            i = j + 1
        else:
            out.append(c)
            i += 1
    return "".join(out)


def _c_int(tok, env):
    tok = tok.strip()
    tok = re.sub(r"^\((.*)\)$", r"\1", tok).strip()
    m = re.fullmatch(r"(0[xX][0-9a-fA-F]+|\d+)[uUlL]*", tok)
    if m:
        return int(m.group(1), 0)
    if tok in env:
        return env[tok] if isinstance(env[tok], int) else None
    # simple binary expressions  A + B, A * B, A | B, A << B
    m = re.fullmatch(r"(.+?)\s*(\+|-|\*|\||<<)\s*([^+\-*|<]+)", tok)
    if m:
        a, op, b = _c_int(m.group(1), env), m.group(2), _c_int(m.group(3), env)
        if not isinstance(a, int) or not isinstance(b, int):
            return None
        return {"+": a + b, "-": a - b, "*": a * b, "|": a | b, "<<": a << b}[op]
    m = re.fullmatch(r"sizeof\((\w+)\)", tok)
    if m and ("sizeof:" + m.group(1)) in env:
        return env["sizeof:" + m.group(1)]
    return None


class CFile:
    def __init__(self, path):
        if not os.path.exists(path):
            raise AnalysisError(f"oracle file {path} not found")
        self.path = path
        with open(path, encoding="utf-8", errors="replace") as f:
            self.raw = f.read()
        self.src = _strip_c(self.raw)
        self._defines = None
        self._enums = None

    def defines(self):
        """#define NAME value -> {NAME: int | str}"""
        if self._defines is None:
            d = {}
            for m in re.finditer(r"^[ \t]*#[ \t]*define[ \t]+(\w+)[ \t]+(.+?)[ \t]*$",
                                 self.src, re.M):
                name, val = m.group(1), m.group(2).strip()
                if "(" in name:
                    continue
                sm = re.fullmatch(r'(?:"(?:[^"\\]|\\.)*"\s*)+', val)
                if sm:
                    parts = re.findall(r'"((?:[^"\\]|\\.)*)"', val)
                    try:
                        d[name] = "".join(bytes(p, "latin-1").decode("unicode_escape") for p in parts)
                    except Exception:
                        d[name] = "".join(parts)
                    continue
                v = _c_int(val, d)
                if v is not None:
                    d[name] = v
                else:
                    d[name] = ("expr", val)
            self._defines = d
        return self._defines

    def enums(self):
        """typedef enum {...} name; -> {name: {MEMBER: int}} (+ '' for
        anonymous)"""
        if self._enums is None:
            out = {}
            for m in re.finditer(r"(?:typedef\s+)?enum\s*(\w*)\s*\{(.*?)\}\s*(\w*)\s*;",
                                 self.src, re.S):
                name = m.group(3) or m.group(1) or ""
                members = {}
                prev = -1
                env = dict(self.defines())
                env = {k: v for k, v in env.items() if isinstance(v, int)}
                for item in m.group(2).split(","):
                    item = item.strip()
                    if not item:
                        continue
                    if "=" in item:
                        k, v = item.split("=", 1)
                        k = k.strip()
                        val = _c_int(v, {**env, **members})
                        if val is None:
                            raise AnalysisError(
                                f"{self.path}: enum {name}.{k} value `{v.strip()}` not understood")
                    else:
                        k = item
                        val = prev + 1
                    if not re.fullmatch(r"\w+", k):
                        raise AnalysisError(f"{self.path}: bad enum member `{k}`")
                    members[k] = val
                    prev = val
                out.setdefault(name, {}).update(members)
            self._enums = out
        return self._enums

    def all_enum_members(self):
        out = {}
        for e in self.enums().values():
            out.update(e)
        return out

    def macro_args(self, macro):
        """Names used as first argument of MACRO(NAME...) e.g. THROW / FAIL."""
        return re.findall(r"\b%s\s*\(\s*(\w+)" % re.escape(macro), self.src)

    def function_body(self, name):
        m = re.search(r"\b%s\s*\([^;{]*\)\s*\{" % re.escape(name), self.src)
        if not m:
            return None
        i = m.end()
        depth = 1
        while i < len(self.src) and depth:
            if self.src[i] == "{":
                depth += 1
            elif self.src[i] == "}":
                depth -= 1
            i += 1
        return self.src[m.end():i - 1]


class Firmware:
    def __init__(self, repo_root):
        self.root = os.path.join(repo_root, "firmware", "src")
        self._files = {}

    def file(self, rel):
        if rel not in self._files:
            self._files[rel] = CFile(os.path.join(self.root, rel))
        return self._files[rel]

    def define(self, rel, name):
        d = self.file(rel).defines()
        if name not in d:
            raise AnalysisError(f"oracle #define {name} not found in firmware/src/{rel}")
        return d[name]

    def enum_member(self, rel, name):
        m = self.file(rel).all_enum_members()
        if name not in m:
            raise AnalysisError(f"oracle enum member {name} not found in firmware/src/{rel}")
        return m[name]


class Markdown:
    def __init__(self, path):
        if not os.path.exists(path):
            raise AnalysisError(f"oracle document {path} not found")
        self.path = path
        with open(path, encoding="utf-8") as f:
            self.text = f.read()

    def sections(self, level=3):
        """{title: body} for headings of the given level."""
        pat = re.compile(r"^(#{1,6})\s+(.*?)\s*$", re.M)
        heads = [(m.start(), m.end(), len(m.group(1)), m.group(2)) for m in pat.finditer(self.text)]
        out = {}
        for i, (s, e, lv, title) in enumerate(heads):
            if lv != level:
                continue
            end = len(self.text)
            for (s2, e2, lv2, t2) in heads[i + 1:]:
                if lv2 <= level:
                    end = s2
                    break
            out[title] = self.text[e:end]
        return out

    def code_blocks(self, body=None):
        return re.findall(r"```[a-zA-Z]*\n(.*?)```", body if body is not None else self.text, re.S)
