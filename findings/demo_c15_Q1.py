# Q1 (C15): a genuine SGX device whose quote carries 0 bytes of QE auth data (allowed by the quote format, accepted by
# sgx/envelope.py, in the range the property quantifies over) cannot be attested: HSMCertificateV2ElementSGXAttestationKey
# rejects an empty auth_data, so do_attestation fails. Harness adapted from seeded/C15-4/demo.py (auth data sizes 0, 1, 32).
# exit 0 = every genuine device verifies; exit 1 = some genuine device is rejected.



#



import sys
import os
import io
import json
import types
import hashlib
import struct
import tempfile
import traceback
import contextlib
from datetime import datetime, timedelta, UTC
from types import SimpleNamespace
from unittest.mock import patch

sys.path.insert(0, os.path.join(os.environ.get("REPO", "/repo"), "middleware"))
_b = types.ModuleType("bitcoin")
_bc = types.ModuleType("bitcoin.core")
_b.core = _bc
sys.modules.setdefault("bitcoin", _b)
sys.modules.setdefault("bitcoin.core", _bc)

import secp256k1  # noqa: E402
from cryptography import x509  # noqa: E402
from cryptography.x509.oid import NameOID  # noqa: E402
from cryptography.hazmat.primitives import hashes  # noqa: E402
from cryptography.hazmat.primitives.asymmetric import ec  # noqa: E402
from cryptography.hazmat.primitives.asymmetric.utils import \
    decode_dss_signature  # noqa: E402
from cryptography.hazmat.primitives.serialization import Encoding  # noqa: E402
from admin.misc import AdminError  # noqa: E402
from admin.certificate import HSMCertificate  # noqa: E402
from admin.sgx_attestation import do_attestation  # noqa: E402
from admin.verify_sgx_attestation import do_verify_attestation  # noqa: E402

PATHS = ["m/44'/0'/0'/0/0", "m/44'/1'/0'/0/0", "m/44'/137'/0'/0/0"]


def new_key():
    return ec.generate_private_key(ec.SECP256R1())


def make_cert(subject_cn, subject_key, issuer_cn, issuer_key, ca):
    now = datetime.now(UTC)
    return x509.CertificateBuilder() \
        .subject_name(x509.Name([x509.NameAttribute(NameOID.COMMON_NAME, subject_cn)])) \
        .issuer_name(x509.Name([x509.NameAttribute(NameOID.COMMON_NAME, issuer_cn)])) \
        .public_key(subject_key.public_key()) \
        .serial_number(x509.random_serial_number()) \
        .not_valid_before(now - timedelta(days=1)) \
        .not_valid_after(now + timedelta(days=365)) \
        .add_extension(x509.BasicConstraints(ca=ca, path_length=None), critical=True) \
        .sign(issuer_key, hashes.SHA256())


def raw_sign(key, data):
    r, s = decode_dss_signature(key.sign(data, ec.ECDSA(hashes.SHA256())))
    return r.to_bytes(32, "big") + s.to_bytes(32, "big")


def raw_pub(key):
    n = key.public_key().public_numbers()
    return n.x.to_bytes(32, "big") + n.y.to_bytes(32, "big")


def report_body(mrenclave, mrsigner, report_data):
    return os.urandom(16) + struct.pack("<I", 0) + bytes(12) + bytes(16) + \
        struct.pack("<QQ", 5, 7) + mrenclave + bytes(32) + mrsigner + bytes(32) + \
        bytes(64) + struct.pack("<HHH", 1, 10, 0) + bytes(42) + bytes(16) + \
        report_data + bytes(64 - len(report_data))


class Device:
    """A simulated genuine SGX powHSM together with its platform"""
    def __init__(self, auth_data_size, chain_length):
        self.root_key, self.ca_key, self.pck_key = new_key(), new_key(), new_key()
        self.att_key = new_key()
        self.root_cert = make_cert("Root CA", self.root_key, "Root CA",
                                   self.root_key, True)
        self.ca_cert = make_cert("Platform CA", self.ca_key, "Root CA",
                                 self.root_key, True)
        self.pck_cert = make_cert("PCK", self.pck_key, "Platform CA",
                                  self.ca_key, False)
        self.qe_auth_data = os.urandom(auth_data_size)
        self.chain_length = chain_length
        self.mrenclave, self.mrsigner = os.urandom(32), os.urandom(32)
        self.wallet = {p: secp256k1.PrivateKey() for p in PATHS}
        self.best_block = os.urandom(32)
        self.last_tx = os.urandom(8)
        self.timestamp = int.from_bytes(os.urandom(4), "big")

    def pubkeys(self):
        return {p: k.pubkey.serialize(compressed=True).hex()
                for p, k in self.wallet.items()}

    def pubkeys_hash(self):
        h = hashlib.sha256()
        for p in sorted(self.wallet):
            h.update(self.wallet[p].pubkey.serialize(compressed=False))
        return h.digest()

    def powhsm_attestation(self, ud):
        message = b"POWHSM:5.6::" + b"sgx" + ud + self.pubkeys_hash() + \
            self.best_block + self.last_tx + self.timestamp.to_bytes(8, "big")

        quote = struct.pack("<HHIHH", 3, 2, 0, 10, 15) + os.urandom(16) + \
            os.urandom(20) + report_body(self.mrenclave, self.mrsigner,
                                         hashlib.sha256(message).digest())
        assert len(quote) == 432

        qe_rb = report_body(os.urandom(32), os.urandom(32), hashlib.sha256(
            raw_pub(self.att_key) + self.qe_auth_data).digest())
        auth = raw_sign(self.att_key, quote) + raw_pub(self.att_key) + qe_rb + \
            raw_sign(self.pck_key, qe_rb)
        assert len(auth) == 576

        chain = [self.pck_cert, self.ca_cert, self.root_cert][:self.chain_length]
        pem = b"".join(c.public_bytes(Encoding.PEM) for c in chain) + b"\x00"

        tail = struct.pack("<H", len(self.qe_auth_data)) + self.qe_auth_data + \
            struct.pack("<HI", 5, len(pem)) + pem
        envelope = quote + struct.pack("<I", len(auth) + len(tail)) + auth + tail + \
            message
        return {
            "app_hash": self.mrenclave.hex(),
            "message": message.hex(),
            "envelope": envelope.hex(),
            "signature": "00",
        }


class FakeHSM:
    def __init__(self, dev):
        self.dev = dev

    def get_powhsm_attestation(self, ud_hex):
        return self.dev.powhsm_attestation(bytes.fromhex(ud_hex))

    def disconnect(self):
        pass


def gather_and_verify(dev, ud):
    with tempfile.TemporaryDirectory() as tmp:
        att_path = os.path.join(tmp, "attestation.json")
        pk_path = os.path.join(tmp, "pubkeys.json")
        root_path = os.path.join(tmp, "root.pem")
        with open(pk_path, "w") as f:
            json.dump(dev.pubkeys(), f)
        with open(root_path, "wb") as f:
            f.write(dev.root_cert.public_bytes(Encoding.PEM))

        out = io.StringIO()
        with patch("admin.sgx_attestation.get_hsm", return_value=FakeHSM(dev)), \
                patch("admin.sgx_attestation.do_unlock"), \
                patch("admin.sgx_attestation.get_ud_value_for_attestation",
                      return_value=ud.hex()), \
                contextlib.redirect_stdout(out):
            do_attestation(SimpleNamespace(
                output_file_path=att_path, attestation_ud_source=ud.hex(),
                no_unlock=True, verbose=False, pin=None, any_pin=False))

            # The written file must load back without loss
            loaded = HSMCertificate.from_jsonfile(att_path)
            with open(att_path) as f:
                assert loaded.to_dict() == json.load(f), "certificate file lossy"

            do_verify_attestation(SimpleNamespace(
                attestation_certificate_file_path=att_path,
                pubkeys_file_path=pk_path, root_authority=root_path))
        return out.getvalue()


def main():
    failures = []
    for chain_length in [3, 2]:
        for auth_data_size in [0, 1, 32]:
            label = f"[chain of {chain_length} certs, " \
                    f"{auth_data_size} bytes of QE auth data]"
            dev = Device(auth_data_size, chain_length)
            ud = os.urandom(32)
            try:
                output = gather_and_verify(dev, ud)
            except AdminError as e:
                failures.append(f"{label} genuine device rejected: {e}")
                continue
            except Exception as e:
                failures.append(f"{label} genuine device: command crashed with "
                                f"{type(e).__name__}: {e}")
                traceback.print_exc()
                continue
            for what, value in [("UD value", ud.hex()),
                                ("MRENCLAVE", dev.mrenclave.hex()),
                                ("MRSIGNER", dev.mrsigner.hex()),
                                ("best block", dev.best_block.hex()),
                                ("public keys hash", dev.pubkeys_hash().hex()),
                                ("timestamp", f"Timestamp: {dev.timestamp}")]:
                if value not in output:
                    failures.append(f"{label} {what} {value} not reported by verify")

    if failures:
        print("C15 VIOLATED:")
        for f in failures:
            print(" -", f)
        return 1
    print("OK: every simulated genuine SGX device verifies end to end")
    return 0


if __name__ == "__main__":
    sys.exit(main())
