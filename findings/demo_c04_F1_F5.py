"""Reproduces C04 findings F1-F5 against the real middleware code (stub bitcoin.core, fake
transport). Exit 0 = all behave as documented; non-zero = defect present.
Run: /venv/bin/python /verif/findings/demo_c04_F1_F5.py [repo_root]"""
import sys, types, io, json, logging
repo = sys.argv[1] if len(sys.argv) > 1 else "/repo"
sys.path.insert(0, repo + "/middleware")
b = types.ModuleType("bitcoin"); bc = types.ModuleType("bitcoin.core"); b.core = bc
sys.modules["bitcoin"] = b; sys.modules["bitcoin.core"] = bc
logging.disable(logging.CRITICAL)
from ledgerblue.commException import CommException
from ledger.protocol import HSM2ProtocolLedger
from ledger.hsm2dongle import HSM2Dongle
from comm.server import _RequestHandler, RequestHandlerError
from unittest.mock import Mock

class FakeTransport:
    opened = True
    def __init__(self, script): self.script = script
    def exchange(self, cmd, timeout=None):
        r = self.script(bytes(cmd))
        if isinstance(r, Exception): raise r
        return r
    def close(self): pass

def mk(script):
    d = HSM2Dongle(False); d.dongle = FakeTransport(script)
    p = HSM2ProtocolLedger(Mock(), d)
    return p

def ask(p, req):
    w = io.BytesIO()
    try:
        _RequestHandler(p, logging.getLogger("x")).handle("c", io.BytesIO(json.dumps(req).encode() + b"\n"), w)
        stopped = False
    except RequestHandlerError:
        stopped = True
    return json.loads(w.getvalue() or b"{}"), stopped

bad = 0
# F1-F3: device answers 0x6B87 (PROT_INVALID, inside the device's own range)
for cmd in ("blockchainState", "blockchainParameters", "resetAdvanceBlockchain"):
    p = mk(lambda c: CommException("x", 0x6B87))
    r, stopped = ask(p, {"command": cmd, "version": 5})
    ok = (not stopped) and r.get("errorcode") == -905
    print(cmd, r, "manager stopped" if stopped else "", "OK" if ok else "DEFECT"); bad += not ok
# F4: uiHeartbeat, device-range status on the mode query
p = mk(lambda c: CommException("x", 0x6B87))
r, stopped = ask(p, {"command": "uiHeartbeat", "udValue": "aa" * 32, "version": 5})
ok = (not stopped) and r.get("errorcode") == -905
print("uiHeartbeat", r, "manager stopped" if stopped else "", "OK" if ok else "DEFECT"); bad += not ok
# F5: authorized sign with a well-formed but unknown key path -> firmware throws 0x6A8F at the path step
d = HSM2Dongle(False); d.dongle = FakeTransport(lambda c: CommException("x", 0x6A8F))
from ledger.hsm2dongle import SighashComputationMode
res = d.sign_authorized(key_id=Mock(**{"to_binary.return_value": b"\x05" + b"\0" * 20}), rsk_tx_receipt="aa",
                        receipt_merkle_proof=["aa"], btc_tx="aa", input_index=0,
                        sighash_computation_mode=SighashComputationMode.LEGACY, witness_script=None, outpoint_value=None)
p = HSM2ProtocolLedger(Mock(), d)
code = p._translate_sign_error(res[1])
ok = code == -103
print("sign_authorized invalid path ->", res, "->", code, "OK" if ok else "DEFECT (documented: -103)"); bad += not ok
sys.exit(1 if bad else 0)
