"""Reproduces C16 finding X1 against the real code (self-generated P-256 keys): a version-2
certificate whose attestation-key element carries one extra byte after the 384-byte report body
that was actually signed is INVALID when loaded, but VALID after save + load, because
HSMCertificateV2ElementSGXAttestationKey.to_dict() re-emitted only the first 384 bytes.
Exit 0 = verdicts before and after the round trip agree; non-zero = defect present.
Run: /venv/bin/python /verif/findings/demo_c16_X1.py [repo_root]"""
import sys, json, os, tempfile, hashlib
repo = sys.argv[1] if len(sys.argv) > 1 else "/repo"
sys.path.insert(0, repo + "/middleware")
import ecdsa
from admin.certificate import HSMCertificate

class Root:
    def __init__(self, vk): self.vk = vk
    def get_pubkey(self): return self.vk

def body(rd32, fill):
    b = bytearray([fill]) * 384; b[320:352] = rd32; return bytes(b)
def sign(sk, m): return sk.sign_digest(hashlib.sha256(m).digest(), sigencode=ecdsa.util.sigencode_der)

root_sk = ecdsa.SigningKey.generate(curve=ecdsa.NIST256p); att_sk = ecdsa.SigningKey.generate(curve=ecdsa.NIST256p)
root = Root(root_sk.get_verifying_key())
auth = bytes.fromhex("a0a1a2"); custom = b"POWHSM:5.4::demo"
att_body = body(hashlib.sha256(att_sk.get_verifying_key().to_string() + auth).digest(), 0x11)
quote = bytes(48) + body(hashlib.sha256(custom).digest(), 0x22)

def cert(att_message):
    return {"version": 2, "targets": ["quote"], "elements": [
        {"name": "quote", "type": "sgx_quote", "message": quote.hex(), "custom_data": custom.hex(),
         "signature": sign(att_sk, quote).hex(), "signed_by": "attestation"},
        {"name": "attestation", "type": "sgx_attestation_key", "message": att_message.hex(),
         "key": att_sk.get_verifying_key().to_string("uncompressed").hex(), "auth_data": auth.hex(),
         "signature": sign(root_sk, att_body).hex(), "signed_by": "sgx_root"}]}

def load_validate_save(doc, t, tag):
    p = os.path.join(t, tag + ".json"); json.dump(doc, open(p, "w"))
    c = HSMCertificate.from_jsonfile(p)
    v = c.validate_and_get_values(root)["quote"][0]
    o = os.path.join(t, tag + ".saved.json"); c.save_to_jsonfile(o)
    return v, json.load(open(o))

with tempfile.TemporaryDirectory() as t:
    genuine, _ = load_validate_save(cert(att_body), t, "genuine")
    v1, saved = load_validate_save(cert(att_body + b"\x00"), t, "tampered")   # signed bytes + 1 trailing byte
    v2, _ = load_validate_save(saved, t, "resaved")
print("genuine valid:", genuine, "| tampered as loaded:", v1, "| tampered after save+load:", v2)
ok = genuine and v1 == v2
print("OK: verdict survives the round trip" if ok else "DEFECT: verdict changes after save + load")
sys.exit(0 if ok else 1)
