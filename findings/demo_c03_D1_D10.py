"""Reproduces C03 findings D1-D10 against the real middleware code (stub bitcoin.core for tx
handling, fake device that keeps to its protocol). For each request line the manager must write
exactly one JSON object with an integer errorcode and must not shut down.
Exit 0 = all answered; non-zero = defect present.
Run: /venv/bin/python /verif/findings/demo_c03_D1_D10.py [repo_root]"""
import sys, types, io, json, logging
repo = sys.argv[1] if len(sys.argv) > 1 else "/repo"
sys.path.insert(0, repo + "/middleware")
b = types.ModuleType("bitcoin"); bc = types.ModuleType("bitcoin.core"); b.core = bc
class _Ser:
    @staticmethod
    def serialize(v): return bytes([v]) if v < 0xfd else b"\xfd" + v.to_bytes(2, "little") if v <= 0xffff else b"\xfe" + v.to_bytes(4, "little")
bc.VarIntSerializer = _Ser
sys.modules["bitcoin"] = b; sys.modules["bitcoin.core"] = bc
logging.disable(logging.CRITICAL)
import rlp
import comm.bitcoin
comm.bitcoin.get_unsigned_tx = lambda tx, hex=True: tx      # tx decoding is not under test here
comm.bitcoin.get_tx_hash = lambda tx: "00" * 32
import ledger.protocol as lp
lp.get_unsigned_tx = comm.bitcoin.get_unsigned_tx; lp.get_tx_hash = comm.bitcoin.get_tx_hash
from ledger.protocol import HSM2ProtocolLedger
from ledger.hsm2dongle import HSM2Dongle
from comm.server import _RequestHandler, RequestHandlerError, RequestHandlerShutdown
from unittest.mock import Mock

class Device:
    """Protocol-abiding signer: asks for data in chunks, asks for brothers after each block."""
    opened = True
    def exchange(self, cmd, timeout=None):
        cla, ins, op = cmd[0], cmd[1], cmd[2] if len(cmd) > 2 else 0
        if ins == 0x02:   # sign
            if op == 0x01: return bytes([0x80, 0x02, 0x02, 50])
            if op == 0x02: return bytes([0x80, 0x02, 0x02, 50])
            return bytes([0x80, 0x02, op, 50])
        if ins == 0x10:   # advance
            if op == 0x02: return bytes([0x80, 0x10, 0x03])
            if op == 0x03: return bytes([0x80, 0x10, 0x04, 80])
            if op == 0x04: return bytes([0x80, 0x10, 0x07])      # ask for brothers
            if op == 0x07: return bytes([0x80, 0x10, 0x06])
        if ins == 0x30:
            if op == 0x02: return bytes([0x80, 0x30, 0x03])
            if op == 0x03: return bytes([0x80, 0x30, 0x04, 80])
            if op == 0x04: return bytes([0x80, 0x30, 0x05])
        return bytes([0x80, ins, op])
    def close(self): pass

def ask(raw):
    d = HSM2Dongle(False); d.dongle = Device()
    p = HSM2ProtocolLedger(Mock(), d)
    w = io.BytesIO()
    stopped = None
    try:
        _RequestHandler(p, logging.getLogger("x")).handle("c", io.BytesIO(raw + b"\n"), w)
    except (RequestHandlerError, RequestHandlerShutdown) as e:
        stopped = str(e)[:70]
    try:
        rep = json.loads(w.getvalue() or b"null")
    except Exception:
        rep = None
    ok = stopped is None and isinstance(rep, dict) and type(rep.get("errorcode")) == int
    return ok, rep, stopped

def J(o): return json.dumps(o).encode()
hdr = lambda fields: rlp.encode(fields).hex()
good_fields = [b"\x01" * 32] * 17 + [b"\x02" * 80, b"\x03" * 32, b"\x04" * 120]
sign = lambda msg: {"command": "sign", "version": 5, "keyId": "m/44'/0'/0'/0/0", "message": msg,
                    "auth": {"receipt": "aa", "receipt_merkle_proof": ["aa"]}}
cases = [
 ("D1 unhashable command", J({"command": ["x"], "version": 5})),
 ("D2 5000-digit integer", b'{"command": "version", "version": ' + b"9" * 5000 + b"}"),
 ("D3 deeply nested document", b"[" * 100000 + b"]" * 100000),
 ("D4 input = -1", J(sign({"tx": "aa", "input": -1, "sighashComputationMode": "legacy"}))),
 ("D4 input = 2**32", J(sign({"tx": "aa", "input": 2**32, "sighashComputationMode": "legacy"}))),
 ("D5 brother is hex but not a block", J({"command": "advanceBlockchain", "version": 5,
        "blocks": [hdr(good_fields)], "brothers": [["aabb"]]})),
 ("D6 last header field is an RLP list", J({"command": "advanceBlockchain", "version": 5,
        "blocks": [hdr(good_fields[:-1] + [[b"\x01"]])], "brothers": [[]]})),
 ("D7 header with a >64KiB field (advance)", J({"command": "advanceBlockchain", "version": 5,
        "blocks": [hdr([b"\x01" * 70000] + good_fields[1:])], "brothers": [[]]})),
 ("D7 header with a >64KiB field (ancestor)", J({"command": "updateAncestorBlock", "version": 5,
        "blocks": [hdr([b"\x01" * 70000] + good_fields[1:17])]})),
 ("D8 witnessScript of 70000 bytes", J(sign({"tx": "aa", "input": 0, "sighashComputationMode": "segwit",
        "witnessScript": "ab" * 70000, "outpointValue": 1}))),
 ("D9 300 brothers for one block", J({"command": "advanceBlockchain", "version": 5,
        "blocks": [hdr(good_fields)], "brothers": [[hdr(good_fields)] * 300]})),
]
def _enc_list(payload):
    n = len(payload)
    if n <= 55:
        return bytes([0xc0 + n]) + payload
    lb = n.to_bytes((n.bit_length() + 7) // 8, "big")
    return bytes([0xf7 + len(lb)]) + lb + payload


def _nested(depth):
    x = b"\x80"
    for _ in range(depth):
        x = _enc_list(x)
    return x


def deep_header(depth, position):
    """17-field header one of whose fields is a list nested `depth` levels deep (hand-encoded RLP)."""
    fields = [b"\x01"] * 17
    payload = b"".join((_nested(depth) if i == position else f) for i, f in enumerate(fields))
    return _enc_list(payload).hex()


cases += [
 ("D10 brother with a field nested 500 lists deep", J({"command": "advanceBlockchain", "version": 5,
        "blocks": [hdr(good_fields)], "brothers": [[deep_header(500, 16)]]})),
 ("D10 block with a field nested 500 lists deep (advance)", J({"command": "advanceBlockchain", "version": 5,
        "blocks": [deep_header(500, 0)], "brothers": [[]]})),
 ("D10 block with a field nested 500 lists deep (ancestor)", J({"command": "updateAncestorBlock", "version": 5,
        "blocks": [deep_header(500, 0)]})),
]
bad = 0
for name, raw in cases:
    ok, rep, stopped = ask(raw)
    print(f"{name:45s} reply={rep} {'MANAGER STOPS: ' + stopped if stopped else ''} -> {'OK' if ok else 'DEFECT'}")
    bad += not ok
sys.exit(1 if bad else 0)
